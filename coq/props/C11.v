(** C11 - the extended-precision middle stage is never confidently wrong.
    FULL STATEMENT: for all (w, q, truncated) in u64 x i32 x bool, both formats, both implementations:
      the stage returns Ok fp (no panic) and, when fp is definite (exp fp >= 0), pack fp = RN f v for
      every v in the denoted range (v = w*10^q, resp. w*10^q <= v < (w+1)*10^q when truncated).
    PROVED for Bellerophon (compact builds), props below closed by [exact] (proofs/BellFacts0-5.v):
      [bellerophon_sound] is exactly the full statement, for every format with [bell_ok] (computed on
      the regenerated constants/tables), every build mode, every w, q - except the documented corner
      `truncated /\ w < 2^40` (KNOWN_FINDINGS F2c; [small_truncated_corner] shows it is real), which
      parse_float cannot produce (it passes 10^18 <= w when truncated).  Forward error analysis:
      [bmul_ok] (the 64x64 multiply is round-half-up of the 128-bit product), table entries are floors
      ([bell_tables_ok] on the regenerated tables), [stage2_bound], [accurate_band] (error_is_accurate
      means no rounding boundary within the band), then RN_monotone.
    PROVED for Eisel-Lemire (default builds), integers only, no axioms (proofs/LemireFacts0-5.v):
      [compute_float_sound_all]: for EVERY w in u64 and EVERY q, both build modes: never a panic, and a
      definite answer satisfies rne_bits (= is the correctly rounded value of w*10^q) - exact table range
      0<=q<=55 incl. the round-to-even window, the floor+1 range -27<=q<0 (no-borrow, tie soundness and
      completeness; "no unrefined false tie" is PROVED by exhibiting modular inverses for the 27 entries,
      checked on the regenerated table), the floor ranges q>55 / q<-27 with the all-ones fallback,
      subnormals, zero/infinity shortcuts; [lemire_sound]: the wrapper for truncated significands
      (definite only if the answers at w and w+1 coincide; then correct on the whole range by monotonicity,
      see [parse_float_lemire_definite_correct] in props/C01.v).  Outside its hypotheses: truncated with
      w = 0 or w = u64::MAX (KNOWN_FINDINGS F2a/F2b, API-only).
    The per-entry table facts are computed on the table dumped from the compiled crate on every run
    ([lfmt_ok_F32/F64], [bell_ok_F32/F64] are vm_compute over all 651 + 76 entries).
    SOURCE TIE (tools/rs2coq): the functions named below are ALSO regenerated from the Rust source on every
    run by a syn-based translator (coq/gen/Src.v) and proved EQUAL to the hand-written model functions the
    theorems above are about ([rs_*_eq], proofs/SrcEq*.v) - for all inputs and both build modes; a change to
    that Rust code changes the generated file and breaks these equalities.
    Here: lemire, compute_float, compute_error, compute_error_scaled, compute_product_approx, full_multiplication, power (lemire.rs); bellerophon, error_is_accurate, normalize, mul, get_small, get_large, get_small_int (bellerophon.rs). *)

From Coq Require Import ZArith QArith List Bool Reals.
From ML Require Import base.RustSem model.Fmt model.Num model.Number model.Rounding model.Bellerophon model.Lemire spec.Decimal spec.Round spec.RoundFacts spec.RneZ spec.RneBridge
  gen.Consts gen.Tables gen.BTables proofs.TableFacts proofs.BellFacts0 proofs.BellFacts1 proofs.BellFacts2 proofs.BellFacts3 proofs.BellFacts4 proofs.BellFacts5 proofs.LemireFacts0 proofs.LemireFacts1 proofs.LemireFacts5 gen.Src proofs.SrcEqBase proofs.SrcEqLemire proofs.SrcEqBell.

Open Scope Z_scope.

Theorem C11_lfmt_ok_F32 :
  lfmt_ok F32 = true.
Proof. exact lfmt_ok_F32. Qed.

Theorem C11_lfmt_ok_F64 :
  lfmt_ok F64 = true.
Proof. exact lfmt_ok_F64. Qed.

Theorem C11_compute_float_sound_all :
  forall (f : format) (b : build) (q w : Z), lfmt_ok f = true -> 0 <= w < 2 ^ 64 -> cf_sound f b q w.
Proof. exact compute_float_sound_all. Qed.

Theorem C11_compute_float_sound :
  forall (f : format) (b : build) (q w : Z),
         lfmt_ok f = true ->
         0 <= w < 2 ^ 64 ->
         - 2 ^ 31 <= q < 2 ^ 31 ->
         exists fp : extfloat,
           compute_float TABLES f b q w = Ok fp /\
           (0 <= exp fp ->
            (0 <= exp fp <= INFINITE_POWER f /\
             (0 <= mant fp < 2 ^ MANTISSA_SIZE f \/ mant fp = 2 ^ MANTISSA_SIZE f /\ exp fp = 1)) /\
            rne_bits f (dec_num w q) (dec_den q) (Z.lor (mant fp) (exp fp * 2 ^ MANTISSA_SIZE f))).
Proof. exact compute_float_sound. Qed.

Theorem C11_lemire_sound :
  forall (f : format) (b : build) (n : number),
         lfmt_ok f = true ->
         0 <= nmant n < 2 ^ 64 ->
         (many n = true -> 0 < nmant n /\ nmant n + 1 < 2 ^ 64) ->
         exists fp : extfloat,
           lemire TABLES f b n = Ok fp /\
           (0 <= exp fp ->
            compute_float TABLES f b (nexp n) (nmant n) = Ok fp /\
            fields_ok f fp /\
            rne_bits f (dec_num (nmant n) (nexp n)) (dec_den (nexp n)) (pack f fp) /\
            (many n = true ->
             compute_float TABLES f b (nexp n) (nmant n + 1) = Ok fp /\
             rne_bits f (dec_num (nmant n + 1) (nexp n)) (dec_den (nexp n)) (pack f fp))).
Proof. exact lemire_sound. Qed.

Theorem C11_compute_product_approx_spec :
  forall (b : build) (q w p : Z),
         -342 <= q <= 308 ->
         0 <= w < 2 ^ 64 ->
         0 < p < 64 ->
         exists lo hi : Z,
           compute_product_approx TABLES b q w p = Ok (lo, hi) /\
           0 <= lo < 2 ^ 64 /\
           0 <= hi < 2 ^ 64 /\ (refined_pair w q lo hi \/ unrefined_pair w q (64 - p) lo hi).
Proof. exact compute_product_approx_spec. Qed.

Theorem C11_bell_ok_F32 :
  bell_ok F32 = true.
Proof. exact BellFacts5.bell_ok_F32. Qed.

Theorem C11_bell_ok_F64 :
  bell_ok F64 = true.
Proof. exact BellFacts5.bell_ok_F64. Qed.

Theorem C11_bellerophon_sound :
  forall (f : format) (b : build) (w q : Z) (t : bool),
         bell_ok f = true ->
         0 <= w < 2 ^ 64 ->
         - 2 ^ 31 <= q < 2 ^ 31 ->
         (t = true -> 2 ^ 40 <= w) ->
         exists fp : extfloat,
           bellerophon BTABLES f b {| nexp := q; nmant := w; many := t |} = Ok fp /\
           (0 <= exp fp ->
            forall v : Q,
            (if t
             then (inject_Z w * pow10Q q <= v < inject_Z (w + 1) * pow10Q q)%Q
             else v == inject_Z w * pow10Q q) -> RN f v = BellFacts5.pack f fp).
Proof. exact bellerophon_sound. Qed.

Theorem C11_bellerophon_sound_strong :
  forall (f : format) (b : build) (w q : Z) (t : bool),
         bell_ok f = true ->
         0 <= w < 2 ^ 64 ->
         - 2 ^ 31 <= q < 2 ^ 31 ->
         (t = true -> 2 ^ 40 <= w) ->
         exists fp : extfloat,
           bellerophon BTABLES f b {| nexp := q; nmant := w; many := t |} = Ok fp /\
           (0 <= exp fp ->
            extended_to_float f b fp = Ok (BellFacts5.pack f fp) /\
            (forall v : Q,
             (if t
              then (inject_Z w * pow10Q q <= v < inject_Z (w + 1) * pow10Q q)%Q
              else v == inject_Z w * pow10Q q) -> RN f v = BellFacts5.pack f fp)).
Proof. exact bellerophon_sound_strong. Qed.

Theorem C11_bmul_ok :
  forall (b : build) (x y : extfloat),
         2 ^ 32 <= mant x < 2 ^ 64 ->
         2 ^ 32 <= mant y < 2 ^ 64 ->
         - 2 ^ 31 <= exp x + exp y ->
         exp x + exp y + 64 < 2 ^ 31 ->
         bmul b x y = Ok {| mant := (mant x * mant y + 2 ^ 63) / 2 ^ 64; exp := exp x + exp y + 64 |}.
Proof. exact bmul_ok. Qed.

Theorem C11_bnormalize_ok :
  forall (b : build) (m e : Z),
         0 < m < 2 ^ 64 ->
         - 2 ^ 31 + 63 <= e < 2 ^ 31 ->
         bnormalize b {| mant := m; exp := e |} = Ok ({| mant := m * 2 ^ lz64 m; exp := e - lz64 m |}, lz64 m).
Proof. exact bnormalize_ok. Qed.

Theorem C11_error_is_accurate_ok :
  forall (f : format) (b : build) (errors M e : Z),
         RoundingFactsZ.rfmt_ok f = true ->
         0 <= M < 2 ^ 64 ->
         0 <= errors < 2 ^ 32 ->
         -64 <= e <= 2 ^ 30 -> error_is_accurate f b errors {| mant := M; exp := e |} = Ok (acc f errors M e).
Proof. exact error_is_accurate_ok. Qed.

Theorem C11_accurate_band :
  forall (f : format) (errors dlo M e : Z),
         RoundingFactsZ.rfmt_ok f = true ->
         2 ^ 63 <= M < 2 ^ 64 ->
         -63 <= e ->
         1 <= dlo < errors ->
         4 * dlo < 2 ^ (63 - MANTISSA_SIZE f) ->
         acc f errors M e = true ->
         let lo := M - dlo in
         let hi := M + errors - 2 in
         (2 ^ 63 <= lo -> res f lo e = res f M e) /\
         (lo < 2 ^ 63 -> -62 <= e /\ 2 ^ 62 <= lo /\ res f (2 * lo) (e - 1) = res f M e) /\
         (hi < 2 ^ 64 -> res f hi e = res f M e) /\
         (2 ^ 64 <= hi -> 2 ^ 63 <= (hi + 1) / 2 < 2 ^ 64 /\ res f ((hi + 1) / 2) (e + 1) = res f M e).
Proof. exact accurate_band. Qed.

Theorem C11_stage2_bound :
  forall (q w : Z) (t : bool) (x : R),
         0 < w < 2 ^ 64 ->
         0 <= q + BIAS ->
         lidx q < NLARGE ->
         (t = true -> 2 ^ 40 <= w) ->
         (if t
          then (IZR w * Raux.bpow r10 q <= x < IZR (w + 1) * Raux.bpow r10 q)%R
          else x = (IZR w * Raux.bpow r10 q)%R) ->
         let x3 := fst (stage2 q w) in
         let e3 := snd (stage2 q w) in
         ((IZR x3 - 1) * Raux.bpow Zaux.radix2 e3 <= x <=
          (IZR x3 + IZR (errs q w t) - 2) * Raux.bpow Zaux.radix2 e3)%R.
Proof. exact stage2_bound. Qed.

Theorem C11_small_truncated_corner :
  bellerophon BTABLES F32 checked_build {| nexp := 0; nmant := 1; many := true |} =
         Ok {| mant := 0; exp := 127 |} /\
         (inject_Z 1 * pow10Q 0 <= 3 # 2 < inject_Z (1 + 1) * pow10Q 0)%Q /\
         RN F32 (3 # 2) <> BellFacts5.pack F32 {| mant := 0; exp := 127 |}.
Proof. exact small_truncated_corner. Qed.

Theorem C11_bell_F1_declined :
  match
           bellerophon BTABLES F64 checked_build {| nexp := -324; nmant := 1062871587088380183; many := true |}
         with
         | Ok fp => exp fp <? 0
         | _ => false
         end = true.
Proof. exact bell_F1_declined. Qed.

Theorem C11_rs_lemire_eq_std :
  forall (f : format) (b : build) (n : number),
         f = F32 \/ f = F64 -> u64_ok (nmant n) -> rs_lemire TABLES f b n = lemire TABLES f b n.
Proof. exact rs_lemire_eq_std. Qed.

Theorem C11_rs_compute_float_eq_std :
  forall (f : format) (b : build) (q w : Z),
         f = F32 \/ f = F64 -> u64_ok w -> rs_compute_float TABLES f b q w = compute_float TABLES f b q w.
Proof. exact rs_compute_float_eq_std. Qed.

Theorem C11_rs_compute_error_eq :
  forall (T : tables) (f : format) (b : build) (q w : Z),
         tables_ok T -> fmt_ok f -> u64_ok w -> rs_compute_error T f b q w = compute_error T f b q w.
Proof. exact rs_compute_error_eq. Qed.

Theorem C11_rs_compute_error_scaled_eq :
  forall (f : format) (b : build) (q w lz : Z),
         u64_ok w -> rs_compute_error_scaled f b q w lz = compute_error_scaled f b q w lz.
Proof. exact rs_compute_error_scaled_eq. Qed.

Theorem C11_rs_compute_product_approx_eq :
  forall (T : tables) (b : build) (q w p : Z),
         tables_ok T -> u64_ok w -> rs_compute_product_approx T b q w p = compute_product_approx T b q w p.
Proof. exact rs_compute_product_approx_eq. Qed.

Theorem C11_rs_full_multiplication_eq :
  forall (b : build) (x y : Z),
         u64_ok x -> u64_ok y -> rs_full_multiplication b x y = Ok (full_multiplication x y).
Proof. exact rs_full_multiplication_eq. Qed.

Theorem C11_rs_power_eq :
  forall (b : build) (q : Z), rs_power b q = power b q.
Proof. exact rs_power_eq. Qed.

Theorem C11_rs_bellerophon_eq_std :
  forall (f : format) (b : build) (n : number),
         f = F32 \/ f = F64 -> u64_ok (nmant n) -> rs_bellerophon BTABLES f b n = bellerophon BTABLES f b n.
Proof. exact rs_bellerophon_eq_std. Qed.

Theorem C11_rs_error_is_accurate_eq :
  forall (f : format) (b : build) (errors : Z) (fp : extfloat),
         fmt_ok f -> u32_ok errors -> rs_error_is_accurate f b errors fp = error_is_accurate f b errors fp.
Proof. exact rs_error_is_accurate_eq. Qed.

Theorem C11_rs_normalize_eq :
  forall (b : build) (fp : extfloat), u64_ok (mant fp) -> rs_normalize b fp = bnormalize b fp.
Proof. exact rs_normalize_eq. Qed.

Theorem C11_rs_mul_eq :
  forall (b : build) (x y : extfloat), rs_mul b x y = bmul b x y.
Proof. exact rs_mul_eq. Qed.

Theorem C11_rs_get_small_eq :
  forall (BT : btables) (b : build) (i : Z), rs_get_small BT b i = get_small BT b i.
Proof. exact rs_get_small_eq. Qed.

Theorem C11_rs_get_large_eq :
  forall (BT : btables) (b : build) (i : Z), btables_ok BT -> rs_get_large BT b i = get_large BT b i.
Proof. exact rs_get_large_eq. Qed.

Theorem C11_rs_get_small_int_eq :
  forall (BT : btables) (b : build) (i : Z), rs_get_small_int BT b i = get_small_int BT i.
Proof. exact rs_get_small_int_eq. Qed.


Print Assumptions C11_lfmt_ok_F32.
Print Assumptions C11_lfmt_ok_F64.
Print Assumptions C11_compute_float_sound_all.
Print Assumptions C11_compute_float_sound.
Print Assumptions C11_lemire_sound.
Print Assumptions C11_compute_product_approx_spec.
Print Assumptions C11_bell_ok_F32.
Print Assumptions C11_bell_ok_F64.
Print Assumptions C11_bellerophon_sound.
Print Assumptions C11_bellerophon_sound_strong.
Print Assumptions C11_bmul_ok.
Print Assumptions C11_bnormalize_ok.
Print Assumptions C11_error_is_accurate_ok.
Print Assumptions C11_accurate_band.
Print Assumptions C11_stage2_bound.
Print Assumptions C11_small_truncated_corner.
Print Assumptions C11_bell_F1_declined.
Print Assumptions C11_rs_lemire_eq_std.
Print Assumptions C11_rs_compute_float_eq_std.
Print Assumptions C11_rs_compute_error_eq.
Print Assumptions C11_rs_compute_error_scaled_eq.
Print Assumptions C11_rs_compute_product_approx_eq.
Print Assumptions C11_rs_full_multiplication_eq.
Print Assumptions C11_rs_power_eq.
Print Assumptions C11_rs_bellerophon_eq_std.
Print Assumptions C11_rs_error_is_accurate_eq.
Print Assumptions C11_rs_normalize_eq.
Print Assumptions C11_rs_mul_eq.
Print Assumptions C11_rs_get_small_eq.
Print Assumptions C11_rs_get_large_eq.
Print Assumptions C11_rs_get_small_int_eq.
