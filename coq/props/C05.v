(** C05 - all feature configurations return bit-identical results.  PROVED END TO END: [C05_final] for any two of the eight shipped configurations and any two build modes.
    Domain as in props/C01.v: [in_domain] = valid_inputb (ASCII digits, integer part without leading zero, any
    i32 exponent) and at most 2^28 digits; all eight configurations, both formats, both build modes; NO further
    premise (the [deep_ok] versions are kept beneath as the intermediate statements).  Closed by [exact]; the
    model is tied to /repo by the correspondence harness on every run. *)

From Coq Require Import ZArith QArith Qabs List Bool Reals Qreals.
From Coq Require Import Floats.SpecFloat.
From Flocq Require Import Core.Core.
From ML Require Import base.RustSem model.Fmt model.Num model.Number model.Parse model.Lemire model.Bellerophon model.Vec model.Bigint model.Slow model.Top
  spec.Decimal spec.Round spec.RoundFacts spec.DigitsSuffice gen.Consts gen.Tables gen.BTables gen.PowDump
  proofs.ParseFacts proofs.FastPathFacts proofs.EndToEnd proofs.EndToEnd2 proofs.EndToEnd3 proofs.EndToEnd4 proofs.EndToEnd5 proofs.EndToEnd6 proofs.EndToEnd7
  proofs.LemireFacts6 proofs.Glue proofs.TruncFacts proofs.TruncFacts2 proofs.SlowFacts1 proofs.DeepFallback proofs.DeepFallback2 proofs.Final.
Import ListNotations.

Open Scope Z_scope.

Theorem C05_C05_final :
  forall (c1 c2 : config) (f : format) (b1 b2 : build) (i fr : list Z) (e : Z),
         In c1 ALL_CONFIGS ->
         In c2 ALL_CONFIGS -> f = F32 \/ f = F64 -> in_domain i fr e -> PF c1 f b1 i fr e = PF c2 f b2 i fr e.
Proof. exact C05_final. Qed.

Theorem C05_parse_float_correct_final :
  forall (c : config) (f : format) (b : build) (i fr : list Z) (e : Z),
         In c ALL_CONFIGS ->
         f = F32 \/ f = F64 ->
         valid_inputb i fr e = true ->
         zlen i + zlen fr <= 2 ^ 28 -> PF c f b i fr e = Ok (RN f (dec_value i fr e)).
Proof. exact parse_float_correct_final. Qed.

Theorem C05_C05_config_independent :
  forall (c1 c2 : config) (f : format) (b1 b2 : build) (i fr : list Z) (e : Z),
         In c1 ALL_CONFIGS ->
         In c2 ALL_CONFIGS ->
         f = F32 \/ f = F64 ->
         in_domain i fr e ->
         EndToEnd7.deep_ok c1 f b1 i fr e ->
         EndToEnd7.deep_ok c2 f b2 i fr e -> PF c1 f b1 i fr e = PF c2 f b2 i fr e.
Proof. exact C05_config_independent. Qed.

Theorem C05_parse_number_build_indep :
  forall (b1 b2 : build) (i f : list Z) (e : Z),
         valid_inputb i f e = true -> parse_number b1 i f e = parse_number b2 i f e.
Proof. exact parse_number_build_indep. Qed.

Theorem C05_try_fast_path_eq_shipped :
  forall (c : config) (f : format) (b : build) (n : number),
         In c ALL_CONFIGS ->
         f = F32 \/ f = F64 ->
         0 <= nmant n < 2 ^ 64 ->
         - 2 ^ 31 <= nexp n < 2 ^ 31 ->
         try_fast_path c TABLES f b n =
         Ok (if fast_path_applies f n then Some (RN f (inject_Z (nmant n) * pow10Q (nexp n))) else None).
Proof. exact try_fast_path_eq_shipped. Qed.


Print Assumptions C05_C05_final.
Print Assumptions C05_parse_float_correct_final.
Print Assumptions C05_C05_config_independent.
Print Assumptions C05_parse_number_build_indep.
Print Assumptions C05_try_fast_path_eq_shipped.
