(** C05 - all feature configurations return bit-identical results.
    FULL STATEMENT (needs C01/C02):  In c1 ALL_CONFIGS -> In c2 ALL_CONFIGS -> valid_inputb i fr e = true ->
      parse_float c1 .. f b1 i fr e = parse_float c2 .. f b2 i fr e.
    PROVED (closed by [exact]): stage 1 does not depend on the configuration at all (it has no
    configuration parameter) nor on the build mode ([parse_number_build_indep]); for the whole
    fast-path class the results of any two shipped configurations and build modes are identical
    ([fast_class_config_independent], from the end-to-end theorem); every source of powers of ten /
    five (tables, std powf/powd, bundled libm, u64::pow) yields the same exact values in all eight
    configurations ([on_demand_pow_ok], on the values dumped from the compiled crate on every run).
    The check compares all 8 configurations x 2 build modes of the real code bit for bit. *)

From Coq Require Import ZArith QArith List Bool.
From ML Require Import base.RustSem model.Fmt model.Number model.Parse model.Top model.Vec model.Bigint spec.Decimal spec.Round spec.RneZ spec.RneBridge
  gen.Consts gen.Tables gen.BTables gen.PowDump proofs.LimbVal proofs.ParseFacts proofs.Glue proofs.NoUB proofs.BigintFacts2 proofs.FastPathFacts proofs.EndToEnd proofs.TableFacts.
Import ListNotations.

Open Scope Z_scope.

Theorem C05_parse_number_build_indep :
  forall (b1 b2 : build) (i f : list Z) (e : Z),
         valid_inputb i f e = true -> parse_number b1 i f e = parse_number b2 i f e.
Proof. exact parse_number_build_indep. Qed.

Theorem C05_fast_class_config_independent :
  forall (c1 c2 : config) (f : format) (b1 b2 : build) (BT1 BT2 : btables) (L1 L2 : limits)
           (i fr : list Z) (e : Z),
         In c1 ALL_CONFIGS ->
         In c2 ALL_CONFIGS ->
         f = F32 \/ f = F64 ->
         fast_class f i fr e ->
         parse_float c1 TABLES BT1 L1 f b1 i fr e = parse_float c2 TABLES BT2 L2 f b2 i fr e.
Proof. exact fast_class_config_independent. Qed.

Theorem C05_try_fast_path_eq_shipped :
  forall (c : config) (f : format) (b : build) (n : number),
         In c ALL_CONFIGS ->
         f = F32 \/ f = F64 ->
         0 <= nmant n < 2 ^ 64 ->
         - 2 ^ 31 <= nexp n < 2 ^ 31 ->
         try_fast_path c TABLES f b n =
         Ok (if fast_path_applies f n then Some (RN f (inject_Z (nmant n) * pow10Q (nexp n))) else None).
Proof. exact try_fast_path_eq_shipped. Qed.

Theorem C05_on_demand_pow_ok :
  forallb (float_pow_ok F32 11) ALL_POW_F32 = true /\
         forallb (float_pow_ok F64 23) ALL_POW_F64 = true /\
         forallb (fun l : list Z => int_pow_ok 10 l && (20 <=? zlen l)) ALL_IPOW10 = true /\
         forallb (fun l : list Z => int_pow_ok 5 l && (28 <=? zlen l)) ALL_IPOW5 = true /\
         length ALL_POW_F32 = 8%nat /\
         length ALL_POW_F64 = 8%nat /\ length ALL_IPOW10 = 8%nat /\ length ALL_IPOW5 = 8%nat.
Proof. exact on_demand_pow_ok. Qed.


Print Assumptions C05_parse_number_build_indep.
Print Assumptions C05_fast_class_config_independent.
Print Assumptions C05_try_fast_path_eq_shipped.
Print Assumptions C05_on_demand_pow_ok.
