(** C14 - every power-of-ten / power-of-five constant equals its definition.
    Statements only; proofs are in proofs/TableFacts.v.  All tables are the regenerated ones. *)
From Coq Require Import ZArith List Bool.
From ML Require Import base.RustSem model.Fmt model.FloatOps gen.Consts gen.Tables gen.BTables gen.PowDump
  proofs.TableFacts.
Open Scope Z_scope.

Theorem C14_small_int_pow5 : forall k, 0 <= k < 28 -> nth (Z.to_nat k) (SMALL_INT_POW5 TABLES) 0 = 5 ^ k.
Proof. exact small_int_pow5_exact. Qed.
Theorem C14_small_int_pow10 : forall k, 0 <= k < 20 -> nth (Z.to_nat k) (SMALL_INT_POW10 TABLES) 0 = 10 ^ k.
Proof. exact small_int_pow10_exact. Qed.
Theorem C14_small_f32_pow10 : forall k, 0 <= k <= 10 ->
  bits_exact F32 (nth (Z.to_nat k) (SMALL_F32_POW10 TABLES) 0) (10 ^ k) = true.
Proof. exact small_f32_pow10_exact. Qed.
Theorem C14_small_f64_pow10 : forall k, 0 <= k <= 22 ->
  bits_exact F64 (nth (Z.to_nat k) (SMALL_F64_POW10 TABLES) 0) (10 ^ k) = true.
Proof. exact small_f64_pow10_exact. Qed.
(** every 128-bit Eisel-Lemire entry is the generator's definition, normalised, with the brackets
    the soundness argument consumes *)
Theorem C14_lemire_table : forall q,
  SMALLEST_POWER_OF_FIVE TABLES <= q <= LARGEST_POWER_OF_FIVE TABLES ->
  lemire_entry_ok (q - SMALLEST_POWER_OF_FIVE TABLES)
    (nth (Z.to_nat (q - SMALLEST_POWER_OF_FIVE TABLES)) (POWER_OF_FIVE_128 TABLES) (0, 0)) = true /\
  lemire_bracket_ok (q - SMALLEST_POWER_OF_FIVE TABLES)
    (nth (Z.to_nat (q - SMALLEST_POWER_OF_FIVE TABLES)) (POWER_OF_FIVE_128 TABLES) (0, 0)) = true.
Proof. exact lemire_entry_spec. Qed.
(** each Bellerophon significand is floor(10^k * 2^-e), normalised, e from the log2 multiplier *)
Theorem C14_bellerophon_tables : bell_small_ok = true /\ bell_large_ok = true /\ bell_exps_match_dump = true /\
  int_pow_ok 10 (BELL_SMALL_INT BTABLES) = true /\ length (BELL_SMALL_INT BTABLES) = 10%nat /\
  length (BELL_SMALL BTABLES) = 10%nat /\ length (BELL_LARGE BTABLES) = 66%nat.
Proof. exact bell_tables_ok. Qed.
Theorem C14_large_pow5 : limbs_val (LARGE_POW5 TABLES) = 5 ^ 135.
Proof. exact large_pow5_exact. Qed.
(** on-demand powers in all eight configurations (tables, std powf/powd, bundled libm, u64::pow) *)
Theorem C14_on_demand_powers :
  forallb (float_pow_ok F32 11) ALL_POW_F32 = true /\ forallb (float_pow_ok F64 23) ALL_POW_F64 = true /\
  forallb (fun l => int_pow_ok 10 l && (20 <=? zlen l)) ALL_IPOW10 = true /\
  forallb (fun l => int_pow_ok 5 l && (28 <=? zlen l)) ALL_IPOW5 = true /\
  length ALL_POW_F32 = 8%nat /\ length ALL_POW_F64 = 8%nat /\ length ALL_IPOW10 = 8%nat /\ length ALL_IPOW5 = 8%nat.
Proof. exact on_demand_pow_ok. Qed.

Print Assumptions C14_small_int_pow5.
Print Assumptions C14_small_int_pow10.
Print Assumptions C14_small_f32_pow10.
Print Assumptions C14_small_f64_pow10.
Print Assumptions C14_lemire_table.
Print Assumptions C14_bellerophon_tables.
Print Assumptions C14_large_pow5.
Print Assumptions C14_on_demand_powers.
