(** C08 - arbitrary bytes never cause undefined memory access (partial by nature: the theorems are
    about the model, in which every unchecked site of /repo/src returns the outcome [UB] when its
    side condition fails; the machine-level behaviour of the compiled unsafe code is observed by
    the correspondence harness / Miri, not proved).
    (1) list-level model: [parse_float] never returns [UB] for ANY byte lists and exponent, in all
        eight configurations, both formats, both build modes (proofs/NoUB.v); the side condition
        [ub_params_ok] on table lengths is discharged on the REGENERATED tables;
    (2) cell-level model of the fixed-capacity vector (62 MaybeUninit cells + u16 length, raw
        writes/copies, set_len): no history over the safe API reaches [UB] (proofs/RawVecFacts.v). *)

From Coq Require Import ZArith List Bool.
From ML Require Import base.RustSem model.Fmt model.Number model.Top model.Vec model.Bigint model.RawVec
  gen.Consts gen.Tables gen.BTables gen.PowDump proofs.NoUB proofs.RawVecFacts.
Import ListNotations.

Open Scope Z_scope.

Theorem C08_parse_float_no_UB :
  forall (c : config) (T : tables) (BT : btables) (L : limits) (f : format) 
           (b : build) (i fr : list Z) (e : Z),
         ub_params_ok c T f = true -> forall k : ub_kind, parse_float c T BT L f b i fr e <> UB k.
Proof. exact parse_float_no_UB. Qed.

Theorem C08_parse_float_float_or_panic :
  forall (c : config) (T : tables) (BT : btables) (L : limits) (f : format) 
           (b : build) (i fr : list Z) (e : Z),
         ub_params_ok c T f = true ->
         (exists v : Z, parse_float c T BT L f b i fr e = Ok v) \/
         (exists p : panic_kind, parse_float c T BT L f b i fr e = Panic p).
Proof. exact parse_float_float_or_panic. Qed.

Theorem C08_ub_params_ok_all :
  forallb (fun c : config => ub_params_ok c TABLES F32 && ub_params_ok c TABLES F64) ALL_CONFIGS = true.
Proof. exact ub_params_ok_all. Qed.

Theorem C08_parse_float_no_UB_shipped :
  forall (c : config) (f : format) (BT : btables) (L : limits) (b : build) (i fr : list Z) (e : Z),
         In c ALL_CONFIGS ->
         f = F32 \/ f = F64 -> forall k : ub_kind, parse_float c TABLES BT L f b i fr e <> UB k.
Proof. exact parse_float_no_UB_shipped. Qed.

Theorem C08_rawvec_history_no_ub :
  forall (L : limits) (b : build),
         limits_ok L -> forall ops : list vop, Forall op_ok ops -> is_ub (raw_run L b ops) = false.
Proof. exact history_no_ub. Qed.

Theorem C08_rawvec_step_total :
  forall (L : limits) (b : build),
         limits_ok L ->
         forall (r : raw) (o : vop),
         Inv L r ->
         op_ok o ->
         match spec_step L (abs r) o with
         | Ok (l', out) => exists r' : raw, raw_step L b r o = Ok (r', out) /\ Inv L r' /\ abs r' = l'
         | Panic k => raw_step L b r o = Panic k /\ k = PkIndex /\ set_oob (abs r) o
         | UB _ => False
         end.
Proof. exact raw_step_total. Qed.

Theorem C08_rawvec_shl_limbs_refines :
  forall (L : limits) (b : build),
         limits_ok L ->
         forall (r : raw) (n : Z),
         Inv L r ->
         0 <= n < 2 ^ 32 ->
         match Bigint.shl_limbs b (ref_vec L (abs r)) n with
         | Ok (Some v) => exists r' : raw, shl_limbs L b r n = Ok (r', true) /\ Inv L r' /\ abs r' = vl v
         | Ok None => shl_limbs L b r n = Ok (r, false)
         | Panic k => shl_limbs L b r n = Panic k
         | UB _ => False
         end.
Proof. exact shl_limbs_refines. Qed.


Print Assumptions C08_parse_float_no_UB.
Print Assumptions C08_parse_float_float_or_panic.
Print Assumptions C08_ub_params_ok_all.
Print Assumptions C08_parse_float_no_UB_shipped.
Print Assumptions C08_rawvec_history_no_ub.
Print Assumptions C08_rawvec_step_total.
Print Assumptions C08_rawvec_shl_limbs_refines.

(** ON THE REGENERATED SOURCE (tools/rs2coq): no unchecked operation of the translation of parse_float is ever executed outside its side condition, for arbitrary bytes. *)
From ML Require Import model.SrcLib model.SrcLibFront gen.Src gen.SrcBigint gen.SrcSlow gen.SrcParse gen.SrcFrontSimple gen.SrcFrontEtc gen.SrcFrontFuzz gen.SrcFrontTest proofs.SrcEqParse proofs.SrcEqSlow proofs.SrcEqFront proofs.SrcFinal.

Theorem C08_rs_parse_float_eq_bytes :
  forall (c : config) (f : format) (b : build) (i fr : list Z) (e : Z),
         f = F32 \/ f = F64 ->
         zlen i + zlen fr < 2 ^ 63 ->
         rs_parse_float c TABLES BTABLES LIMITS f b i fr e = parse_float c TABLES BTABLES LIMITS f b i fr e.
Proof. exact rs_parse_float_eq_bytes. Qed.

Theorem C08_rs_parse_float_no_UB :
  forall (c : config) (f : format) (b : build) (i fr : list Z) (e : Z) (k : ub_kind),
         f = F32 \/ f = F64 ->
         zlen i + zlen fr < 2 ^ 63 ->
         ub_params_ok c TABLES f = true -> rs_parse_float c TABLES BTABLES LIMITS f b i fr e <> UB k.
Proof. exact rs_parse_float_no_UB. Qed.

Print Assumptions C08_rs_parse_float_eq_bytes.
Print Assumptions C08_rs_parse_float_no_UB.
