(** C13 - stack and heap vectors behave like a length-bounded sequence.
    Statements only (closed by [exact]); proofs in proofs/RawVecFacts.v.  model/RawVec.v is the
    cell-level model of src/stackvec.rs (62 [option Z] cells + u16 length; unchecked operations
    return [UB] outside their side condition); the reference sequence is the list-level model of
    model/Vec.v + model/Bigint.v.  [raw_step_total]/[history_refines] : every history over the safe
    API, from [new], never reaches UB, keeps the invariant (length <= capacity, prefix initialised)
    and yields the outputs and visible contents of the reference run, for both build modes. *)

From Coq Require Import ZArith List Bool.
From ML Require Import base.RustSem model.Fmt model.Vec model.Bigint model.RawVec gen.Consts proofs.LimbVal proofs.RawVecFacts.
Import ListNotations.

Open Scope Z_scope.

Theorem C13_L62_ok :
  limits_ok L62.
Proof. exact L62_ok. Qed.

Theorem C13_len_le_cap :
  forall (L : limits) (r : raw),
         Inv L r -> 0 <= rlen r <= cap L /\ rlen r = zlen (abs r) /\ zlen (cells r) = cap L.
Proof. exact len_le_cap. Qed.

Theorem C13_raw_step_refines :
  forall (L : limits) (b : build),
         limits_ok L ->
         forall (r : raw) (o : vop),
         Inv L r ->
         op_ok o ->
         ~ set_oob (abs r) o ->
         exists (r' : raw) (out : vout),
           raw_step L b r o = Ok (r', out) /\ Inv L r' /\ spec_step L (abs r) o = Ok (abs r', out).
Proof. exact raw_step_refines. Qed.

Theorem C13_raw_step_set_oob :
  forall (L : limits) (b : build) (r : raw) (i x : Z),
         Inv L r ->
         ~ 0 <= i < rlen r ->
         raw_step L b r (OpSet i x) = Panic PkIndex /\ spec_step L (abs r) (OpSet i x) = Panic PkIndex.
Proof. exact raw_step_set_oob. Qed.

Theorem C13_raw_step_total :
  forall (L : limits) (b : build),
         limits_ok L ->
         forall (r : raw) (o : vop),
         Inv L r ->
         op_ok o ->
         match spec_step L (abs r) o with
         | Ok (l', out) => exists r' : raw, raw_step L b r o = Ok (r', out) /\ Inv L r' /\ abs r' = l'
         | Panic k => raw_step L b r o = Panic k /\ k = PkIndex /\ set_oob (abs r) o
         | UB _ => False
         end.
Proof. exact raw_step_total. Qed.

Theorem C13_failed_op_unchanged :
  forall (L : limits) (b : build),
         limits_ok L ->
         forall (r : raw) (o : vop) (r' : raw),
         Inv L r ->
         op_ok o ->
         (exists x : Z, o = OpPush x) \/
         (exists s : list Z, o = OpExtend s) \/ (exists len x : Z, o = OpResize len x) ->
         raw_step L b r o = Ok (r', OutFlag false) ->
         r' = r /\
         abs r' = abs r /\
         match o with
         | OpPush _ => BIGINT_LIMBS L < zlen (abs r) + 1
         | OpExtend s => BIGINT_LIMBS L < zlen (abs r) + zlen s
         | OpResize len _ => BIGINT_LIMBS L < len
         | _ => True
         end.
Proof. exact failed_op_unchanged. Qed.

Theorem C13_history_from :
  forall (L : limits) (b : build),
         limits_ok L ->
         forall (ops : list vop) (r : raw),
         Inv L r ->
         Forall op_ok ops ->
         match spec_run_from L (abs r) ops with
         | Ok (l', outs) => exists r' : raw, raw_run_from L b r ops = Ok (r', outs) /\ Inv L r' /\ abs r' = l'
         | Panic k => raw_run_from L b r ops = Panic k /\ k = PkIndex
         | UB _ => False
         end.
Proof. exact history_from. Qed.

Theorem C13_history_refines :
  forall (L : limits) (b : build),
         limits_ok L ->
         forall ops : list vop,
         Forall op_ok ops ->
         match spec_run L ops with
         | Ok (l', outs) => exists r' : raw, raw_run L b ops = Ok (r', outs) /\ Inv L r' /\ abs r' = l'
         | Panic k => raw_run L b ops = Panic k /\ k = PkIndex
         | UB _ => False
         end.
Proof. exact history_refines. Qed.

Theorem C13_history_no_ub :
  forall (L : limits) (b : build),
         limits_ok L -> forall ops : list vop, Forall op_ok ops -> is_ub (raw_run L b ops) = false.
Proof. exact history_no_ub. Qed.

Theorem C13_history_prefix :
  forall (L : limits) (b : build),
         limits_ok L ->
         forall (p q : list vop) (r' : raw) (outs : list vout),
         Forall op_ok (p ++ q) ->
         raw_run L b (p ++ q) = Ok (r', outs) ->
         exists (r1 : raw) (outs1 : list vout),
           raw_run L b p = Ok (r1, outs1) /\
           Inv L r1 /\ 0 <= rlen r1 <= cap L /\ spec_run L p = Ok (abs r1, outs1).
Proof. exact history_prefix. Qed.

Theorem C13_eq_spec :
  forall (L : limits) (b : build),
         limits_ok L ->
         forall (r : raw) (s : list Z),
         Inv L r ->
         limbs_ok s ->
         zlen s <= BIGINT_LIMBS L ->
         Bigint.is_normalized (abs r) = true ->
         Bigint.is_normalized s = true ->
         raw_step L b r (OpEq s) = Ok (r, OutBool (lval (abs r) =? lval s)) /\
         spec_step L (abs r) (OpEq s) = Ok (abs r, OutBool (lval (abs r) =? lval s)).
Proof. exact eq_spec. Qed.

Theorem C13_cmp_spec :
  forall (L : limits) (b : build),
         limits_ok L ->
         forall (r : raw) (s : list Z),
         Inv L r ->
         limbs_ok s ->
         zlen s <= BIGINT_LIMBS L ->
         Bigint.is_normalized (abs r) = true ->
         Bigint.is_normalized s = true ->
         raw_step L b r (OpCmp s) = Ok (r, OutCmp (lval (abs r) ?= lval s)) /\
         spec_step L (abs r) (OpCmp s) = Ok (abs r, OutCmp (vcompare (abs r) s)) /\
         vcompare (abs r) s = (lval (abs r) ?= lval s).
Proof. exact cmp_spec. Qed.

Theorem C13_shl_limbs_refines :
  forall (L : limits) (b : build),
         limits_ok L ->
         forall (r : raw) (n : Z),
         Inv L r ->
         0 <= n < 2 ^ 32 ->
         match Bigint.shl_limbs b (ref_vec L (abs r)) n with
         | Ok (Some v) => exists r' : raw, shl_limbs L b r n = Ok (r', true) /\ Inv L r' /\ abs r' = vl v
         | Ok None => shl_limbs L b r n = Ok (r, false)
         | Panic k => shl_limbs L b r n = Panic k
         | UB _ => False
         end.
Proof. exact shl_limbs_refines. Qed.


Print Assumptions C13_L62_ok.
Print Assumptions C13_len_le_cap.
Print Assumptions C13_raw_step_refines.
Print Assumptions C13_raw_step_set_oob.
Print Assumptions C13_raw_step_total.
Print Assumptions C13_failed_op_unchanged.
Print Assumptions C13_history_from.
Print Assumptions C13_history_refines.
Print Assumptions C13_history_no_ub.
Print Assumptions C13_history_prefix.
Print Assumptions C13_eq_spec.
Print Assumptions C13_cmp_spec.
Print Assumptions C13_shl_limbs_refines.

(** SOURCE TIE (tools/rs2coq rules 28-30): the unsafe fixed-capacity vector src/stackvec.rs (every function of impl StackVec, Deref::deref) and the raw-pointer body of bigint::shl_limbs are regenerated as Gallina over the cell-level memory model on every run (coq/gen/SrcStackVec.v; ptr::write / read / copy / copy_nonoverlapping / write_bytes / slice::from_raw_parts mapped to the raw accesses of model/RawVec.v) and proved EQUAL to the hand-written cell-level model the theorems above are about; safe_*: for the safe API under the invariant Inv alone; src_*: the refinement to the list-level vector transferred to the regenerated text.  Where the hand model is stricter than the Rust text (it turns the safety contract of set_len / truncate_unchecked into UB) the equality is stated with that contract as hypothesis. *)
From ML Require Import model.SrcLib model.SrcLibRaw gen.SrcStackVec proofs.RawVecFacts proofs.SrcEqStackVec.

Theorem C13_rs_sv_new_eq :
  forall (L : limits) (b : build), rs_sv_new L b = Ok (raw_new L).
Proof. exact rs_sv_new_eq. Qed.

Theorem C13_rs_sv_len_eq :
  forall (L : limits) (b : build) (r : raw), len_usize r -> rs_sv_len L b r = Ok (rlen r).
Proof. exact rs_sv_len_eq. Qed.

Theorem C13_rs_sv_capacity_eq :
  forall (L : limits) (b : build) (r : raw), rs_sv_capacity L b r = Ok (cap L).
Proof. exact rs_sv_capacity_eq. Qed.

Theorem C13_rs_sv_set_len_eq :
  forall (L : limits) (b : build) (r : raw) (len : Z),
         len <= cap L \/ dbg b = true -> rs_sv_set_len L b r len = set_len L b r len.
Proof. exact rs_sv_set_len_eq. Qed.

Theorem C13_rs_sv_truncate_unchecked_eq :
  forall (L : limits) (b : build) (r : raw) (len : Z),
         len <= cap L \/ dbg b = true -> rs_sv_truncate_unchecked L b r len = truncate_unchecked L b r len.
Proof. exact rs_sv_truncate_unchecked_eq. Qed.

Theorem C13_rs_sv_push_unchecked_eq :
  forall (L : limits) (b : build) (r : raw) (x : Z),
         len_usize r -> rs_sv_push_unchecked L b r x = push_unchecked L b r x.
Proof. exact rs_sv_push_unchecked_eq. Qed.

Theorem C13_rs_sv_try_push_eq :
  forall (L : limits) (b : build) (r : raw) (x : Z),
         len_usize r -> rs_sv_try_push L b r x = try_push L b r x.
Proof. exact rs_sv_try_push_eq. Qed.

Theorem C13_rs_sv_pop_unchecked_eq :
  forall (L : limits) (b : build) (r : raw),
         len_usize r -> rs_sv_pop_unchecked L b r = pop_unchecked b r.
Proof. exact rs_sv_pop_unchecked_eq. Qed.

Theorem C13_rs_sv_pop_eq :
  forall (L : limits) (b : build) (r : raw), len_usize r -> rs_sv_pop L b r = pop b r.
Proof. exact rs_sv_pop_eq. Qed.

Theorem C13_rs_sv_extend_unchecked_eq :
  forall (L : limits) (b : build) (r : raw) (s : list Z),
         len_usize r -> buf_ok L r -> rs_sv_extend_unchecked L b r s = extend_unchecked L b r s.
Proof. exact rs_sv_extend_unchecked_eq. Qed.

Theorem C13_rs_sv_try_extend_eq :
  forall (L : limits) (b : build) (r : raw) (s : list Z),
         len_usize r -> buf_ok L r -> rs_sv_try_extend L b r s = try_extend L b r s.
Proof. exact rs_sv_try_extend_eq. Qed.

Theorem C13_rs_sv_resize_unchecked_eq :
  forall (L : limits) (b : build) (r : raw) (len x : Z),
         len_usize r ->
         len < 2 ^ 64 ->
         len <= cap L \/ dbg b = true \/ rlen r < len ->
         rs_sv_resize_unchecked L b r len x = resize_unchecked L b r len x.
Proof. exact rs_sv_resize_unchecked_eq. Qed.

Theorem C13_rs_sv_try_resize_eq :
  forall (L : limits) (b : build) (r : raw) (len x : Z),
         len_usize r -> len < 2 ^ 64 -> rs_sv_try_resize L b r len x = try_resize L b r len x.
Proof. exact rs_sv_try_resize_eq. Qed.

Theorem C13_rs_sv_try_from_eq :
  forall (L : limits) (b : build) (s : list Z), rs_sv_try_from L b s = try_from L b s.
Proof. exact rs_sv_try_from_eq. Qed.

Theorem C13_rs_sv_deref_eq :
  forall (L : limits) (b : build) (r : raw), len_usize r -> rs_sv_deref L b r = deref r.
Proof. exact rs_sv_deref_eq. Qed.

Theorem C13_rs_sv_shl_limbs_eq :
  forall (L : limits) (b : build) (r : raw) (n : Z),
         len_usize r -> rs_sv_shl_limbs L b r n = shl_limbs L b r n.
Proof. exact rs_sv_shl_limbs_eq. Qed.

Theorem C13_safe_try_push :
  forall (L : limits) (b : build),
         limits_ok L -> forall (r : raw) (x : Z), Inv L r -> rs_sv_try_push L b r x = try_push L b r x.
Proof. exact safe_try_push. Qed.

Theorem C13_safe_pop :
  forall (L : limits) (b : build), limits_ok L -> forall r : raw, Inv L r -> rs_sv_pop L b r = pop b r.
Proof. exact safe_pop. Qed.

Theorem C13_safe_try_extend :
  forall (L : limits) (b : build),
         limits_ok L -> forall (r : raw) (s : list Z), Inv L r -> rs_sv_try_extend L b r s = try_extend L b r s.
Proof. exact safe_try_extend. Qed.

Theorem C13_safe_try_resize :
  forall (L : limits) (b : build),
         limits_ok L ->
         forall (r : raw) (len x : Z), Inv L r -> rs_sv_try_resize L b r len x = try_resize L b r len x.
Proof. exact safe_try_resize. Qed.

Theorem C13_safe_try_from :
  forall (L : limits) (b : build) (s : list Z), rs_sv_try_from L b s = try_from L b s.
Proof. exact safe_try_from. Qed.

Theorem C13_safe_deref :
  forall (L : limits) (b : build), limits_ok L -> forall r : raw, Inv L r -> rs_sv_deref L b r = deref r.
Proof. exact safe_deref. Qed.

Theorem C13_safe_shl_limbs :
  forall (L : limits) (b : build),
         limits_ok L -> forall (r : raw) (n : Z), Inv L r -> rs_sv_shl_limbs L b r n = shl_limbs L b r n.
Proof. exact safe_shl_limbs. Qed.

Theorem C13_src_try_push_ok :
  forall (L : limits) (b : build),
         limits_ok L ->
         forall (r : raw) (l : list Z) (x : Z),
         Rep L r l ->
         zlen l < BIGINT_LIMBS L ->
         0 <= x < B64 -> exists r' : raw, rs_sv_try_push L b r x = Ok (r', true) /\ Rep L r' (l ++ [x]).
Proof. exact src_try_push_ok. Qed.

Theorem C13_src_deref_rep :
  forall (L : limits) (b : build),
         limits_ok L -> forall (r : raw) (l : list Z), Rep L r l -> rs_sv_deref L b r = Ok l.
Proof. exact src_deref_rep. Qed.

Theorem C13_src_shl_limbs_refines :
  forall (L : limits) (b : build),
         limits_ok L ->
         forall (r : raw) (n : Z),
         Inv L r ->
         0 <= n < 2 ^ 32 ->
         match Bigint.shl_limbs b (ref_vec L (abs r)) n with
         | Ok (Some v) => exists r' : raw, rs_sv_shl_limbs L b r n = Ok (r', true) /\ Inv L r' /\ abs r' = vl v
         | Ok None => rs_sv_shl_limbs L b r n = Ok (r, false)
         | Panic k => rs_sv_shl_limbs L b r n = Panic k
         | UB _ => False
         end.
Proof. exact src_shl_limbs_refines. Qed.

Print Assumptions C13_rs_sv_new_eq.
Print Assumptions C13_rs_sv_len_eq.
Print Assumptions C13_rs_sv_capacity_eq.
Print Assumptions C13_rs_sv_set_len_eq.
Print Assumptions C13_rs_sv_truncate_unchecked_eq.
Print Assumptions C13_rs_sv_push_unchecked_eq.
Print Assumptions C13_rs_sv_try_push_eq.
Print Assumptions C13_rs_sv_pop_unchecked_eq.
Print Assumptions C13_rs_sv_pop_eq.
Print Assumptions C13_rs_sv_extend_unchecked_eq.
Print Assumptions C13_rs_sv_try_extend_eq.
Print Assumptions C13_rs_sv_resize_unchecked_eq.
Print Assumptions C13_rs_sv_try_resize_eq.
Print Assumptions C13_rs_sv_try_from_eq.
Print Assumptions C13_rs_sv_deref_eq.
Print Assumptions C13_rs_sv_shl_limbs_eq.
Print Assumptions C13_safe_try_push.
Print Assumptions C13_safe_pop.
Print Assumptions C13_safe_try_extend.
Print Assumptions C13_safe_try_resize.
Print Assumptions C13_safe_try_from.
Print Assumptions C13_safe_deref.
Print Assumptions C13_safe_shl_limbs.
Print Assumptions C13_src_try_push_ok.
Print Assumptions C13_src_deref_rep.
Print Assumptions C13_src_shl_limbs_refines.

(** SOURCE TIE, heap back-end (tools/rs2coq rule 31): the non-delegating functions of impl HeapVec (src/heapvec.rs) are regenerated as Gallina on every run (coq/gen/SrcHeapVec.v; the std::vec::Vec methods they call are given by model/SrcLibHeap.v with std's amortised capacity growth) and coincide with the heap case of the list-level vector model: a heap try_* never fails and its effect on contents and capacity is model/Vec.v's. *)
From ML Require Import model.SrcLibHeap gen.SrcHeapVec proofs.SrcEqHeapVec.

Theorem C13_rs_hv_new_eq :
  forall (L : limits) (b : build), rs_hv_new L b = Ok (vnew L).
Proof. exact rs_hv_new_eq. Qed.

Theorem C13_rs_hv_len_eq :
  forall (L : limits) (b : build) (v : vec), rs_hv_len L b v = Ok (vlen v).
Proof. exact rs_hv_len_eq. Qed.

Theorem C13_rs_hv_capacity_eq :
  forall (L : limits) (b : build) (v : vec), rs_hv_capacity L b v = Ok (vcap v).
Proof. exact rs_hv_capacity_eq. Qed.

Theorem C13_rs_hv_try_push_eq :
  forall (L : limits) (b : build) (v : vec) (x : Z),
         exists v' : vec, Vec.try_push true v x = Some v' /\ rs_hv_try_push L b v x = Ok (v', true).
Proof. exact rs_hv_try_push_eq. Qed.

Theorem C13_rs_hv_pop_eq :
  forall (L : limits) (b : build) (v : vec), rs_hv_pop L b v = Ok (snd (vpop v), fst (vpop v)).
Proof. exact rs_hv_pop_eq. Qed.

Theorem C13_rs_hv_try_extend_eq :
  forall (L : limits) (b : build) (v : vec) (s : list Z),
         exists v' : vec, Vec.try_extend true v s = Some v' /\ rs_hv_try_extend L b v s = Ok (v', true).
Proof. exact rs_hv_try_extend_eq. Qed.

Theorem C13_rs_hv_try_resize_eq :
  forall (L : limits) (b : build) (v : vec) (n x : Z),
         exists v' : vec, Vec.try_resize true v n x = Some v' /\ rs_hv_try_resize L b v n x = Ok (v', true).
Proof. exact rs_hv_try_resize_eq. Qed.

Theorem C13_rs_hv_try_from_eq :
  forall (L : limits) (b : build) (s : list Z), rs_hv_try_from L b s = Ok (Vec.try_from true L s).
Proof. exact rs_hv_try_from_eq. Qed.

Theorem C13_rs_hv_deref_eq :
  forall (L : limits) (b : build) (v : vec), rs_hv_deref L b v = Ok (vl v).
Proof. exact rs_hv_deref_eq. Qed.

Theorem C13_rs_hv_set_len_eq :
  forall (L : limits) (b : build) (v : vec) (n : Z),
         0 <= n <= vlen v -> vlen v <= vcap v -> rs_hv_set_len L b v n = vec_set_len v n.
Proof. exact rs_hv_set_len_eq. Qed.

Print Assumptions C13_rs_hv_new_eq.
Print Assumptions C13_rs_hv_len_eq.
Print Assumptions C13_rs_hv_capacity_eq.
Print Assumptions C13_rs_hv_try_push_eq.
Print Assumptions C13_rs_hv_pop_eq.
Print Assumptions C13_rs_hv_try_extend_eq.
Print Assumptions C13_rs_hv_try_resize_eq.
Print Assumptions C13_rs_hv_try_from_eq.
Print Assumptions C13_rs_hv_deref_eq.
Print Assumptions C13_rs_hv_set_len_eq.
