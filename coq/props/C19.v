(** C19 - the shipped string front-end plus the library parses decimal literals correctly.
    Statements only (closed by [exact]); proofs in proofs/FrontEndFacts.v, about model/FrontEnd.v
    (variant [fe_simple] = examples/simple.rs and the etc/correctness copies; [fe_fuzz] = the
    fuzz-target / integration-test copies with the special literals and the empty-input rule).
    The lexer theorems are unconditional (every byte string).  VALUE: [C19_final] (no premise; [front_end_value] is the version with the intermediate premise) - for every byte
    string of at most 2^28 bytes the front end returns the pattern of +- RN (value of the literal as
    written: int.frac x 10^e with e the saturated exponent) and exactly the unconsumed suffix, in all
    eight configurations, both formats and build modes.  It composes [lex_decompose], [lex_establishes_preconditions_len],
    [trim_preserves_value] with [parse_float_correct]. *)

From Coq Require Import ZArith QArith List Bool.
From ML Require Import base.RustSem model.Fmt model.Num model.FloatOps model.Number model.Top model.FrontEnd
  spec.Decimal gen.Consts gen.Tables gen.BTables gen.PowDump proofs.FrontEndFacts proofs.EndToEnd7 proofs.EndToEnd8 proofs.Final.
Import ListNotations.

Open Scope Z_scope.

Theorem C19_C19_final :
  forall (c : config) (f : format) (b : build) (s : list Z),
         In c ALL_CONFIGS ->
         f = F32 \/ f = F64 ->
         zlen s <= 2 ^ 28 ->
         let x := lex s in
         fe_simple c TABLES BTABLES LIMITS f b s =
         Ok
           (let v := Round.RN f (dec_value (lx_int x) (lx_frac x) (lx_exp x)) in
            if lx_pos x then v else f_neg f v, lx_rest x).
Proof. exact C19_final. Qed.

Theorem C19_front_end_value :
  forall (c : config) (f : format) (b : build) (s : list Z),
         In c ALL_CONFIGS ->
         f = F32 \/ f = F64 ->
         zlen s <= 2 ^ 28 ->
         let x := lex s in
         deep_ok c f b (ltrim_zero (lx_int x)) (rtrim_zero (lx_frac x)) (lx_exp x) ->
         fe_simple c TABLES BTABLES LIMITS f b s =
         Ok
           (let v := Round.RN f (dec_value (lx_int x) (lx_frac x) (lx_exp x)) in
            if lx_pos x then v else f_neg f v, lx_rest x).
Proof. exact front_end_value. Qed.

Theorem C19_consume_digits_spec :
  forall s d r : list Z,
         consume_digits s = (d, r) ->
         s = d ++ r /\
         Forall digit d /\ (r = [] \/ (exists (c : Z) (r' : list Z), r = c :: r' /\ is_digit c = false)).
Proof. exact consume_digits_spec. Qed.

Theorem C19_parse_sign_spec :
  forall (s : list Z) (p : bool) (r : list Z),
         parse_sign s = (p, r) ->
         s = 43 :: r /\ p = true \/ s = 45 :: r /\ p = false \/ s = r /\ p = true /\ head_not is_signch s.
Proof. exact parse_sign_spec. Qed.

Theorem C19_ltrim_zero_spec :
  forall s : list Z,
         exists k : nat, s = repeat 48 k ++ ltrim_zero s /\ head_not (fun c : Z => c =? 48) (ltrim_zero s).
Proof. exact ltrim_zero_spec. Qed.

Theorem C19_ltrim_zero_value :
  forall s : list Z, digits_to_Z (ltrim_zero s) = digits_to_Z s.
Proof. exact ltrim_zero_value. Qed.

Theorem C19_rtrim_zero_spec :
  forall s : list Z, exists k : nat, s = rtrim_zero s ++ repeat 48 k /\ last_not_zero (rtrim_zero s).
Proof. exact rtrim_zero_spec. Qed.

Theorem C19_rtrim_zero_value :
  forall s : list Z,
         exists k : nat,
           s = rtrim_zero s ++ repeat 48 k /\
           digits_to_Z s = digits_to_Z (rtrim_zero s) * 10 ^ Z.of_nat k /\
           zlen s = zlen (rtrim_zero s) + Z.of_nat k.
Proof. exact rtrim_zero_value. Qed.

Theorem C19_parse_exponent_saturates :
  forall ed : list Z,
         Forall digit ed ->
         parse_exponent ed true = Z.min i32_max (digits_to_Z ed) /\
         parse_exponent ed false = Z.max i32_min (- digits_to_Z ed).
Proof. exact parse_exponent_saturates. Qed.

Theorem C19_parse_exponent_in_i32 :
  forall (ed : list Z) (pos : bool), in_s 32 (parse_exponent ed pos) = true.
Proof. exact parse_exponent_in_i32. Qed.

Theorem C19_lex_spec :
  forall s : list Z,
         exists sign_part frac_part exp_part : list Z, lex_shape s (lex s) sign_part frac_part exp_part.
Proof. exact lex_spec. Qed.

Theorem C19_lex_unique :
  forall (s : list Z) (x : lexed) (sign_part frac_part exp_part : list Z),
         lex_shape s x sign_part frac_part exp_part -> lex s = x.
Proof. exact lex_unique. Qed.

Theorem C19_lex_decompose :
  forall (c : config) (T : tables) (BT : btables) (L : limits) (f : format) (b : build) (s : list Z),
         exists (sign_part int frac_part exp_part rest : list Z) (pos : bool) (frac : list Z) 
         (e : Z),
           lex_shape s {| lx_pos := pos; lx_int := int; lx_frac := frac; lx_exp := e; lx_rest := rest |}
             sign_part frac_part exp_part /\
           fe_core c T BT L f b false s =
           v <- parse_float c T BT L f b (ltrim_zero int) (rtrim_zero frac) e;; Ok (apply_sign f pos v, rest).
Proof. exact lex_decompose. Qed.

Theorem C19_lex_establishes_preconditions_len :
  forall s : list Z,
         zlen s < 2 ^ 31 - 2 ->
         valid_input (ltrim_zero (lx_int (lex s))) (rtrim_zero (lx_frac (lex s))) (lx_exp (lex s)).
Proof. exact lex_establishes_preconditions_len. Qed.

Theorem C19_trim_preserves_value :
  forall (int frac : list Z) (e : Z),
         dec_value (ltrim_zero int) (rtrim_zero frac) e == dec_value int frac e.
Proof. exact trim_preserves_value. Qed.

Theorem C19_lex_longest_prefix :
  forall s : list Z,
         exists p : list Z,
           s = p ++ lx_rest (lex s) /\
           float_prefix p /\
           (forall p' q' : list Z, s = p' ++ q' -> float_prefix p' -> (length p' <= length p)%nat).
Proof. exact lex_longest_prefix. Qed.

Theorem C19_ci_starts_with_spec :
  forall y x : list Z,
         ci_starts_with x y = true <->
         (exists x1 x2 : list Z, x = x1 ++ x2 /\ length x1 = length y /\ Forall2 ci_byte x1 y).
Proof. exact ci_starts_with_spec. Qed.

Theorem C19_accepted_bytes_complete :
  forall xi yi : Z, 0 <= xi <= 255 -> ci_starts_with [xi] [yi] = true <-> In xi (accepted_bytes yi).
Proof. exact accepted_bytes_complete. Qed.

Theorem C19_fe_fuzz_nan :
  forall (c : config) (T : tables) (BT : btables) (L : limits) (f : format) (b : build),
         fmt_special_ok f = true ->
         forall (s : list Z) (pos : bool) (s1 : list Z),
         parse_sign s = (pos, s1) ->
         ci_starts_with s1 lit_nan = true ->
         fe_fuzz c T BT L f b s = Ok (apply_sign f pos (qnan_bits f), skipn 3 s1).
Proof. exact fe_fuzz_nan. Qed.

Theorem C19_fe_fuzz_infinity :
  forall (c : config) (T : tables) (BT : btables) (L : limits) (f : format) (b : build),
         fmt_special_ok f = true ->
         forall (s : list Z) (pos : bool) (s1 : list Z),
         parse_sign s = (pos, s1) ->
         ci_starts_with s1 lit_nan = false ->
         ci_starts_with s1 lit_infinity = true ->
         fe_fuzz c T BT L f b s = Ok (apply_sign f pos (EXPONENT_MASK f), skipn 8 s1).
Proof. exact fe_fuzz_infinity. Qed.

Theorem C19_fe_fuzz_inf :
  forall (c : config) (T : tables) (BT : btables) (L : limits) (f : format) (b : build),
         fmt_special_ok f = true ->
         forall (s : list Z) (pos : bool) (s1 : list Z),
         parse_sign s = (pos, s1) ->
         ci_starts_with s1 lit_nan = false ->
         ci_starts_with s1 lit_infinity = false ->
         ci_starts_with s1 lit_inf = true ->
         fe_fuzz c T BT L f b s = Ok (apply_sign f pos (EXPONENT_MASK f), skipn 3 s1).
Proof. exact fe_fuzz_inf. Qed.

Theorem C19_fe_fuzz_numeric :
  forall (c : config) (T : tables) (BT : btables) (L : limits) (f : format) 
           (b : build) (s : list Z) (pos : bool) (s1 : list Z),
         parse_sign s = (pos, s1) ->
         ci_starts_with s1 lit_nan = false ->
         ci_starts_with s1 lit_infinity = false ->
         ci_starts_with s1 lit_inf = false -> fe_fuzz c T BT L f b s = fe_numeric c T BT L f b true s.
Proof. exact fe_fuzz_numeric. Qed.

Theorem C19_lex_consumes_nothing_iff :
  forall s : list Z, zlen (lx_rest (lex s)) = zlen s <-> head_not starts_float s.
Proof. exact lex_consumes_nothing_iff. Qed.

Theorem C19_fe_numeric_empty_match :
  forall (c : config) (T : tables) (BT : btables) (L : limits) (f : format) (b : build) (s : list Z),
         head_not starts_float s -> fe_numeric c T BT L f b true s = Ok (f_from_u64 f 0, s).
Proof. exact fe_numeric_empty_match. Qed.

Theorem C19_front_end_total :
  forall (c : config) (T : tables) (BT : btables) (L : limits) (f : format) 
           (b : build) (special : bool) (s : list Z),
         (special = true -> fmt_special_ok f = true) ->
         match fe_core c T BT L f b special s with
         | Ok _ => True
         | Panic k => inner_call c T BT L f b s = Panic k
         | UB k => inner_call c T BT L f b s = UB k
         end.
Proof. exact front_end_total. Qed.

Theorem C19_fe_simple_total :
  forall (c : config) (T : tables) (BT : btables) (L : limits) (f : format) (b : build) (s : list Z),
         is_ok (inner_call c T BT L f b s) = true -> is_ok (fe_simple c T BT L f b s) = true.
Proof. exact fe_simple_total. Qed.

Theorem C19_fe_fuzz_total_F32_F64 :
  forall (c : config) (T : tables) (BT : btables) (L : limits) (b : build) (s : list Z),
         (is_ok (inner_call c T BT L F32 b s) = true -> is_ok (fe_fuzz c T BT L F32 b s) = true) /\
         (is_ok (inner_call c T BT L F64 b s) = true -> is_ok (fe_fuzz c T BT L F64 b s) = true).
Proof. exact fe_fuzz_total_F32_F64. Qed.

Theorem C19_fe_simple_main :
  forall (c : config) (T : tables) (BT : btables) (L : limits) (f : format) (b : build) (s : list Z),
         let x := lex s in
         let i := ltrim_zero (lx_int x) in
         let fr := rtrim_zero (lx_frac x) in
         (exists sign_part frac_part exp_part : list Z, lex_shape s x sign_part frac_part exp_part) /\
         (exists p : list Z,
            s = p ++ lx_rest x /\
            float_prefix p /\
            (forall p' q' : list Z, s = p' ++ q' -> float_prefix p' -> (length p' <= length p)%nat)) /\
         (zlen s < 2 ^ 31 - 2 -> valid_input i fr (lx_exp x)) /\
         dec_value i fr (lx_exp x) == dec_value (lx_int x) (lx_frac x) (lx_exp x) /\
         fe_simple c T BT L f b s =
         v <- parse_float c T BT L f b i fr (lx_exp x);; Ok (if lx_pos x then v else f_neg f v, lx_rest x).
Proof. exact fe_simple_main. Qed.


Print Assumptions C19_C19_final.
Print Assumptions C19_front_end_value.
Print Assumptions C19_consume_digits_spec.
Print Assumptions C19_parse_sign_spec.
Print Assumptions C19_ltrim_zero_spec.
Print Assumptions C19_ltrim_zero_value.
Print Assumptions C19_rtrim_zero_spec.
Print Assumptions C19_rtrim_zero_value.
Print Assumptions C19_parse_exponent_saturates.
Print Assumptions C19_parse_exponent_in_i32.
Print Assumptions C19_lex_spec.
Print Assumptions C19_lex_unique.
Print Assumptions C19_lex_decompose.
Print Assumptions C19_lex_establishes_preconditions_len.
Print Assumptions C19_trim_preserves_value.
Print Assumptions C19_lex_longest_prefix.
Print Assumptions C19_ci_starts_with_spec.
Print Assumptions C19_accepted_bytes_complete.
Print Assumptions C19_fe_fuzz_nan.
Print Assumptions C19_fe_fuzz_infinity.
Print Assumptions C19_fe_fuzz_inf.
Print Assumptions C19_fe_fuzz_numeric.
Print Assumptions C19_lex_consumes_nothing_iff.
Print Assumptions C19_fe_numeric_empty_match.
Print Assumptions C19_front_end_total.
Print Assumptions C19_fe_simple_total.
Print Assumptions C19_fe_fuzz_total_F32_F64.
Print Assumptions C19_fe_simple_main.

(** SOURCE TIE (tools/rs2coq): the four shipped copies of the string front-end (examples/simple.rs, etc/correctness/test-parse-golang/main.rs, fuzz/fuzz_targets/parse.rs, tests/integration_tests.rs) are regenerated as Gallina on every run (coq/gen/SrcFront*.v) and proved EQUAL to the hand-written model (fe_simple / fe_fuzz) the theorems above are about, for every byte list shorter than 2^64 and both build modes, given the equality rs_parse_float = parse_float of the library call (proved for valid digit strings in proofs/SrcFinal.v). *)
From ML Require Import model.SrcLib model.SrcLibFront gen.Src gen.SrcBigint gen.SrcSlow gen.SrcParse gen.SrcFrontSimple gen.SrcFrontEtc gen.SrcFrontFuzz gen.SrcFrontTest proofs.SrcEqFront.

Theorem C19_rs_simple_parse_sign_eq :
  forall (b : build) (s : list Z), rs_simple_parse_sign b s = Ok (parse_sign s).
Proof. exact rs_simple_parse_sign_eq. Qed.

Theorem C19_rs_simple_is_digit_eq :
  forall (b : build) (c : Z), rs_simple_is_digit b c = Ok (is_digit c).
Proof. exact rs_simple_is_digit_eq. Qed.

Theorem C19_rs_simple_consume_digits_eq :
  forall (b : build) (s : list Z),
         zlen s < 2 ^ 64 -> rs_simple_consume_digits b s = Ok (consume_digits s).
Proof. exact rs_simple_consume_digits_eq. Qed.

Theorem C19_rs_simple_ltrim_zero_eq :
  forall (b : build) (s : list Z), rs_simple_ltrim_zero b s = Ok (ltrim_zero s).
Proof. exact rs_simple_ltrim_zero_eq. Qed.

Theorem C19_rs_simple_rtrim_zero_eq :
  forall (b : build) (s : list Z), zlen s < 2 ^ 64 -> rs_simple_rtrim_zero b s = Ok (rtrim_zero s).
Proof. exact rs_simple_rtrim_zero_eq. Qed.

Theorem C19_rs_simple_parse_exponent_eq :
  forall (b : build) (l : list Z) (pos : bool),
         Forall digit l -> rs_simple_parse_exponent b l pos = Ok (parse_exponent l pos).
Proof. exact rs_simple_parse_exponent_eq. Qed.

Theorem C19_rs_fuzz_case_insensitive_starts_with_eq :
  forall (b : build) (x y : list Z),
         rs_fuzz_case_insensitive_starts_with b x y = Ok (ci_starts_with x y).
Proof. exact rs_fuzz_case_insensitive_starts_with_eq. Qed.

Theorem C19_rs_simple_parse_float_eq :
  forall (c : config) (T : tables) (BT : btables) (L : limits) (f : format) (b : build) (s : list Z),
         zlen s < 2 ^ 64 ->
         pf_eq_at c T BT L f b s -> rs_simple_parse_float c T BT L f b s = fe_simple c T BT L f b s.
Proof. exact rs_simple_parse_float_eq. Qed.

Theorem C19_rs_etc_parse_float_eq :
  forall (c : config) (T : tables) (BT : btables) (L : limits) (f : format) (b : build) (s : list Z),
         zlen s < 2 ^ 64 ->
         pf_eq_at c T BT L f b s -> rs_etc_parse_float c T BT L f b s = fe_simple c T BT L f b s.
Proof. exact rs_etc_parse_float_eq. Qed.

Theorem C19_rs_fuzz_parse_float_eq :
  forall (c : config) (T : tables) (BT : btables) (L : limits) (f : format) (b : build) (s : list Z),
         zlen s < 2 ^ 64 ->
         pf_eq_at c T BT L f b s -> rs_fuzz_parse_float c T BT L f b s = fe_fuzz c T BT L f b s.
Proof. exact rs_fuzz_parse_float_eq. Qed.

Theorem C19_rs_test_parse_float_eq :
  forall (c : config) (T : tables) (BT : btables) (L : limits) (f : format) (b : build) (s : list Z),
         zlen s < 2 ^ 64 ->
         pf_eq_at c T BT L f b s -> rs_test_parse_float c T BT L f b s = fe_fuzz c T BT L f b s.
Proof. exact rs_test_parse_float_eq. Qed.

Theorem C19_rs_simple_parse_float_eq_all :
  forall (c : config) (T : tables) (BT : btables) (L : limits) (f : format) (b : build),
         (forall (i fr : list Z) (e : Z), rs_parse_float c T BT L f b i fr e = parse_float c T BT L f b i fr e) ->
         forall s : list Z, zlen s < 2 ^ 64 -> rs_simple_parse_float c T BT L f b s = fe_simple c T BT L f b s.
Proof. exact rs_simple_parse_float_eq_all. Qed.

Theorem C19_rs_etc_parse_float_eq_all :
  forall (c : config) (T : tables) (BT : btables) (L : limits) (f : format) (b : build),
         (forall (i fr : list Z) (e : Z), rs_parse_float c T BT L f b i fr e = parse_float c T BT L f b i fr e) ->
         forall s : list Z, zlen s < 2 ^ 64 -> rs_etc_parse_float c T BT L f b s = fe_simple c T BT L f b s.
Proof. exact rs_etc_parse_float_eq_all. Qed.

Theorem C19_rs_fuzz_parse_float_eq_all :
  forall (c : config) (T : tables) (BT : btables) (L : limits) (f : format) (b : build),
         (forall (i fr : list Z) (e : Z), rs_parse_float c T BT L f b i fr e = parse_float c T BT L f b i fr e) ->
         forall s : list Z, zlen s < 2 ^ 64 -> rs_fuzz_parse_float c T BT L f b s = fe_fuzz c T BT L f b s.
Proof. exact rs_fuzz_parse_float_eq_all. Qed.

Theorem C19_rs_test_parse_float_eq_all :
  forall (c : config) (T : tables) (BT : btables) (L : limits) (f : format) (b : build),
         (forall (i fr : list Z) (e : Z), rs_parse_float c T BT L f b i fr e = parse_float c T BT L f b i fr e) ->
         forall s : list Z, zlen s < 2 ^ 64 -> rs_test_parse_float c T BT L f b s = fe_fuzz c T BT L f b s.
Proof. exact rs_test_parse_float_eq_all. Qed.

Print Assumptions C19_rs_simple_parse_sign_eq.
Print Assumptions C19_rs_simple_is_digit_eq.
Print Assumptions C19_rs_simple_consume_digits_eq.
Print Assumptions C19_rs_simple_ltrim_zero_eq.
Print Assumptions C19_rs_simple_rtrim_zero_eq.
Print Assumptions C19_rs_simple_parse_exponent_eq.
Print Assumptions C19_rs_fuzz_case_insensitive_starts_with_eq.
Print Assumptions C19_rs_simple_parse_float_eq.
Print Assumptions C19_rs_etc_parse_float_eq.
Print Assumptions C19_rs_fuzz_parse_float_eq.
Print Assumptions C19_rs_test_parse_float_eq.
Print Assumptions C19_rs_simple_parse_float_eq_all.
Print Assumptions C19_rs_etc_parse_float_eq_all.
Print Assumptions C19_rs_fuzz_parse_float_eq_all.
Print Assumptions C19_rs_test_parse_float_eq_all.

(** UNCONDITIONAL SOURCE TIE (proofs/SrcFinal.v): with the library equality rs_parse_float_eq_bytes the four regenerated front-end copies equal the model for arbitrary byte strings shorter than 2^63, and the value theorem holds for the regenerated examples/simple.rs and its etc/ copy. *)
From ML Require Import model.SrcLib model.SrcLibFront gen.Src gen.SrcBigint gen.SrcSlow gen.SrcParse gen.SrcFrontSimple gen.SrcFrontEtc gen.SrcFrontFuzz gen.SrcFrontTest proofs.SrcEqParse proofs.SrcEqSlow proofs.SrcEqFront proofs.SrcFinal.

Theorem C19_rs_simple_parse_float_eq_bytes :
  forall (c : config) (f : format) (b : build) (s : list Z),
         f = F32 \/ f = F64 ->
         zlen s < 2 ^ 63 ->
         rs_simple_parse_float c TABLES BTABLES LIMITS f b s = fe_simple c TABLES BTABLES LIMITS f b s.
Proof. exact rs_simple_parse_float_eq_bytes. Qed.

Theorem C19_rs_etc_parse_float_eq_bytes :
  forall (c : config) (f : format) (b : build) (s : list Z),
         f = F32 \/ f = F64 ->
         zlen s < 2 ^ 63 ->
         rs_etc_parse_float c TABLES BTABLES LIMITS f b s = fe_simple c TABLES BTABLES LIMITS f b s.
Proof. exact rs_etc_parse_float_eq_bytes. Qed.

Theorem C19_rs_fuzz_parse_float_eq_bytes :
  forall (c : config) (f : format) (b : build) (s : list Z),
         f = F32 \/ f = F64 ->
         zlen s < 2 ^ 63 ->
         rs_fuzz_parse_float c TABLES BTABLES LIMITS f b s = fe_fuzz c TABLES BTABLES LIMITS f b s.
Proof. exact rs_fuzz_parse_float_eq_bytes. Qed.

Theorem C19_rs_test_parse_float_eq_bytes :
  forall (c : config) (f : format) (b : build) (s : list Z),
         f = F32 \/ f = F64 ->
         zlen s < 2 ^ 63 ->
         rs_test_parse_float c TABLES BTABLES LIMITS f b s = fe_fuzz c TABLES BTABLES LIMITS f b s.
Proof. exact rs_test_parse_float_eq_bytes. Qed.

Theorem C19_rs_simple_parse_float_correct :
  forall (c : config) (f : format) (b : build) (s : list Z),
         In c ALL_CONFIGS ->
         f = F32 \/ f = F64 ->
         zlen s <= 2 ^ 28 ->
         let x := lex s in
         rs_simple_parse_float c TABLES BTABLES LIMITS f b s =
         Ok
           (let v := Round.RN f (dec_value (lx_int x) (lx_frac x) (lx_exp x)) in
            if lx_pos x then v else f_neg f v, lx_rest x).
Proof. exact rs_simple_parse_float_correct. Qed.

Theorem C19_rs_etc_parse_float_correct :
  forall (c : config) (f : format) (b : build) (s : list Z),
         In c ALL_CONFIGS ->
         f = F32 \/ f = F64 ->
         zlen s <= 2 ^ 28 ->
         let x := lex s in
         rs_etc_parse_float c TABLES BTABLES LIMITS f b s =
         Ok
           (let v := Round.RN f (dec_value (lx_int x) (lx_frac x) (lx_exp x)) in
            if lx_pos x then v else f_neg f v, lx_rest x).
Proof. exact rs_etc_parse_float_correct. Qed.

Print Assumptions C19_rs_simple_parse_float_eq_bytes.
Print Assumptions C19_rs_etc_parse_float_eq_bytes.
Print Assumptions C19_rs_fuzz_parse_float_eq_bytes.
Print Assumptions C19_rs_test_parse_float_eq_bytes.
Print Assumptions C19_rs_simple_parse_float_correct.
Print Assumptions C19_rs_etc_parse_float_correct.

(** The three further shipped copies of the front-end (etc/correctness/rng-tests/_common.rs, test-parse-random/_common.rs, test-parse-unittests/main.rs) are regenerated too (coq/gen/SrcFrontRng.v, SrcFrontRand.v, SrcFrontUnit.v); their generated parser functions coincide with those of examples/simple.rs and equal the model for arbitrary byte strings. *)
From ML Require Import gen.SrcFrontRng gen.SrcFrontRand gen.SrcFrontUnit proofs.SrcEqFront3.

Theorem C19_rs_rng_parse_float_eq_bytes :
  forall (c : config) (f : format) (b : build) (s : list Z),
         f = F32 \/ f = F64 ->
         zlen s < 2 ^ 63 ->
         rs_rng_parse_float c TABLES BTABLES LIMITS f b s = fe_simple c TABLES BTABLES LIMITS f b s.
Proof. exact rs_rng_parse_float_eq_bytes. Qed.

Theorem C19_rs_rand_parse_float_eq_bytes :
  forall (c : config) (f : format) (b : build) (s : list Z),
         f = F32 \/ f = F64 ->
         zlen s < 2 ^ 63 ->
         rs_rand_parse_float c TABLES BTABLES LIMITS f b s = fe_simple c TABLES BTABLES LIMITS f b s.
Proof. exact rs_rand_parse_float_eq_bytes. Qed.

Theorem C19_rs_unit_parse_float_eq_bytes :
  forall (c : config) (f : format) (b : build) (s : list Z),
         f = F32 \/ f = F64 ->
         zlen s < 2 ^ 63 ->
         rs_unit_parse_float c TABLES BTABLES LIMITS f b s = fe_simple c TABLES BTABLES LIMITS f b s.
Proof. exact rs_unit_parse_float_eq_bytes. Qed.

Theorem C19_rs_rand_parse_float_correct :
  forall (c : config) (f : format) (b : build) (s : list Z),
         In c ALL_CONFIGS ->
         f = F32 \/ f = F64 ->
         zlen s <= 2 ^ 28 ->
         let x := lex s in
         rs_rand_parse_float c TABLES BTABLES LIMITS f b s =
         Ok
           (let v := Round.RN f (dec_value (lx_int x) (lx_frac x) (lx_exp x)) in
            if lx_pos x then v else f_neg f v, lx_rest x).
Proof. exact rs_rand_parse_float_correct. Qed.

Print Assumptions C19_rs_rng_parse_float_eq_bytes.
Print Assumptions C19_rs_rand_parse_float_eq_bytes.
Print Assumptions C19_rs_unit_parse_float_eq_bytes.
Print Assumptions C19_rs_rand_parse_float_correct.
