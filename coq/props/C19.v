(** C19 - theorems under construction. *)
From Coq Require Import ZArith.
