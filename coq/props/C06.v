(** C06 - arbitrarily long digit strings are still rounded correctly.
    PROVED (closed by [exact]; proofs/ParseFacts.v): the first stage keeps exactly the first 19
    significant digits w, reports truncation, and the exact value lies in [w, w+1) * 10^(X+k) with
    the exponent the saturation of the mathematically exact one - for every valid input of any
    length (< 2^31 - 2 digits) and both build modes.  The deeper truncation at MAX_DIGITS
    (parse_mantissa) and the end-to-end consequence are covered by the correspondence/search
    (exact ties with a digit at depth 20 .. 10^6, tails of 9s, trailing zeros). *)

From Coq Require Import ZArith QArith List Bool.
From ML Require Import base.RustSem model.Fmt model.Number model.Parse model.Top model.Vec model.Bigint spec.Decimal spec.Round spec.RneZ spec.RneBridge
  gen.Consts gen.Tables gen.BTables gen.PowDump proofs.LimbVal proofs.ParseFacts proofs.Glue proofs.NoUB proofs.BigintFacts2.
Import ListNotations.

Open Scope Z_scope.

Theorem C06_parse_number_spec :
  forall (b : build) (i f : list Z) (e : Z),
         valid_inputb i f e = true ->
         exists n : number,
           parse_number b i f e = Ok n /\
           0 <= nmant n < 2 ^ 64 /\
           i32_min <= nexp n <= i32_max /\
           (let D := digits_to_Z (i ++ f) in
            let X := e - zlen f in
            let s := strip0 (i ++ f) in
            many n = (19 <? zlen s) /\
            nmant n = digits_to_Z (firstn 19 s) /\
            nexp n = clamp_i32 (X + Z.max 0 (zlen s - 19)) /\
            (many n = false ->
             nmant n = D /\ D < 10 ^ 19 /\ nexp n = clamp_i32 X /\ clamp_i32 X = Z.max i32_min X) /\
            (many n = true ->
             10 ^ 18 <= nmant n < 10 ^ 19 /\
             (exists k : Z,
                k = zlen s - 19 /\
                1 <= k <= zlen i + zlen f - 19 /\
                nmant n * 10 ^ k <= D < (nmant n + 1) * 10 ^ k /\ nexp n = clamp_i32 (X + k))) /\
            (D = 0 -> nmant n = 0 /\ many n = false) /\
            (nmant n = 0 -> D = 0) /\ (zlen i + zlen f <= 19 -> many n = false)).
Proof. exact parse_number_spec. Qed.

Theorem C06_parse_number_value_bracket :
  forall (b : build) (i f : list Z) (e : Z) (n : number),
         valid_inputb i f e = true ->
         parse_number b i f e = Ok n ->
         let X := e - zlen f in
         (many n = false -> dec_value i f e == inject_Z (nmant n) * pow10Q X /\ nexp n = clamp_i32 X) /\
         (many n = true ->
          exists k : Z,
            1 <= k /\
            k = zlen (strip0 (i ++ f)) - 19 /\
            nexp n = clamp_i32 (X + k) /\
            (inject_Z (nmant n) * pow10Q (X + k) <= dec_value i f e < inject_Z (nmant n + 1) * pow10Q (X + k))%Q).
Proof. exact parse_number_value_bracket. Qed.

Theorem C06_parse_number_exact :
  forall (b : build) (i f : list Z) (e : Z),
         valid_inputb i f e = true -> parse_number b i f e = Ok (parse_spec i f e).
Proof. exact parse_number_exact. Qed.


Print Assumptions C06_parse_number_spec.
Print Assumptions C06_parse_number_value_bracket.
Print Assumptions C06_parse_number_exact.
