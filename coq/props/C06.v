(** C06 - arbitrarily long digit strings are still rounded correctly.
    PROVED (closed by [exact]):
     - stage 1 (proofs/ParseFacts.v): keeps exactly the first 19 significant digits w, reports
       truncation, and the exact value lies in [w, w+1) * 10^(X+k), exponent = saturation of the exact
       one - every valid input of any length (< 2^31 - 2 digits), both build modes;
     - the MAX_DIGITS argument (proofs/TruncFacts.v, TruncFacts2.v): every rounding boundary of the
       format has at most MAX_DIGITS significant decimal digits ([boundary_digits]; the side condition
       [trunc_ok] is computed on the REGENERATED constant: for f64 it holds iff MAX_DIGITS >= 768, for
       f32 iff >= 113 - see [digits_ok] examples in the proof file), no boundary lies strictly inside
       a cell (N0*10^k, (N0+1)*10^k) of MAX_DIGITS-digit numbers, RN is constant between boundaries,
       hence keeping MAX_DIGITS digits plus ONE sticky digit `1` when a later digit is non-zero never
       changes the correctly rounded result ([truncation_preserves_rounding]); and in the shape the
       property states it: a non-zero digit at any depth breaks an exact tie upward
       ([far_digit_breaks_tie]), a tail of 9s just below a tie rounds down
       ([nines_below_tie_round_down]), trailing zeros are irrelevant ([trailing_zeros_irrelevant]).
    That parse_mantissa implements exactly this truncation is proofs/SlowFacts1.v (in progress) and
    the correspondence harness (deciding digit at depths 20 .. 10^6, around MAX_DIGITS-2 .. +2). *)

From Coq Require Import ZArith QArith List Bool.
From ML Require Import base.RustSem model.Fmt model.Number model.Parse spec.Decimal spec.Round spec.RoundFacts spec.RneZ
  gen.Consts proofs.ParseFacts proofs.TruncFacts proofs.TruncFacts2.
Import ListNotations.

Open Scope Z_scope.

Theorem C06_parse_number_spec :
  forall (b : build) (i f : list Z) (e : Z),
         valid_inputb i f e = true ->
         exists n : number,
           parse_number b i f e = Ok n /\
           0 <= nmant n < 2 ^ 64 /\
           i32_min <= nexp n <= i32_max /\
           (let D := digits_to_Z (i ++ f) in
            let X := e - zlen f in
            let s := strip0 (i ++ f) in
            many n = (19 <? zlen s) /\
            nmant n = digits_to_Z (firstn 19 s) /\
            nexp n = clamp_i32 (X + Z.max 0 (zlen s - 19)) /\
            (many n = false ->
             nmant n = D /\ D < 10 ^ 19 /\ nexp n = clamp_i32 X /\ clamp_i32 X = Z.max i32_min X) /\
            (many n = true ->
             10 ^ 18 <= nmant n < 10 ^ 19 /\
             (exists k : Z,
                k = zlen s - 19 /\
                1 <= k <= zlen i + zlen f - 19 /\
                nmant n * 10 ^ k <= D < (nmant n + 1) * 10 ^ k /\ nexp n = clamp_i32 (X + k))) /\
            (D = 0 -> nmant n = 0 /\ many n = false) /\
            (nmant n = 0 -> D = 0) /\ (zlen i + zlen f <= 19 -> many n = false)).
Proof. exact parse_number_spec. Qed.

Theorem C06_parse_number_value_bracket :
  forall (b : build) (i f : list Z) (e : Z) (n : number),
         valid_inputb i f e = true ->
         parse_number b i f e = Ok n ->
         let X := e - zlen f in
         (many n = false -> dec_value i f e == inject_Z (nmant n) * pow10Q X /\ nexp n = clamp_i32 X) /\
         (many n = true ->
          exists k : Z,
            1 <= k /\
            k = zlen (strip0 (i ++ f)) - 19 /\
            nexp n = clamp_i32 (X + k) /\
            (inject_Z (nmant n) * pow10Q (X + k) <= dec_value i f e < inject_Z (nmant n + 1) * pow10Q (X + k))%Q).
Proof. exact parse_number_value_bracket. Qed.

Theorem C06_trunc_ok_F32 :
  trunc_ok F32 = true.
Proof. exact trunc_ok_F32. Qed.

Theorem C06_trunc_ok_F64 :
  trunc_ok F64 = true.
Proof. exact trunc_ok_F64. Qed.

Theorem C06_boundary_digits :
  forall (f : format) (M E : Z),
         trunc_ok f = true ->
         boundary f M E -> exists c j : Z, 0 < c < 10 ^ MAX_DIGITS f /\ bndQ M E == decQ c j.
Proof. exact boundary_digits. Qed.

Theorem C06_no_boundary_in_cell :
  forall (f : format) (N0 k M E : Z),
         trunc_ok f = true ->
         boundary f M E ->
         10 ^ (MAX_DIGITS f - 1) <= N0 -> (decQ N0 k < bndQ M E)%Q -> (bndQ M E < decQ (N0 + 1) k)%Q -> False.
Proof. exact no_boundary_in_cell. Qed.

Theorem C06_RN_const_between :
  forall f : format,
         sfmt_ok f = true ->
         forall v1 v2 : Q,
         (0 <= v1)%Q ->
         (v1 <= v2)%Q ->
         (forall M E : Z, boundary f M E -> (v1 <= bndQ M E)%Q -> (bndQ M E <= v2)%Q -> False) ->
         RN f v1 = RN f v2.
Proof. exact RN_const_between. Qed.

Theorem C06_RN_cell_const :
  forall f : format,
         sfmt_ok f = true ->
         trunc_ok f = true ->
         forall (a k : Z) (v1 v2 : Q),
         10 ^ (MAX_DIGITS f - 1) <= a ->
         (decQ a k < v1)%Q ->
         (v1 < decQ (a + 1) k)%Q -> (decQ a k < v2)%Q -> (v2 < decQ (a + 1) k)%Q -> RN f v1 = RN f v2.
Proof. exact RN_cell_const. Qed.

Theorem C06_truncation_preserves_rounding :
  forall f : format,
         sfmt_ok f = true ->
         trunc_ok f = true ->
         forall (s : list Z) (X : Z),
         forallb digitb s = true ->
         hd 48 s <> 48 ->
         MAX_DIGITS f < zlen s ->
         let n := Z.to_nat (MAX_DIGITS f) in
         let N0 := digits_to_Z (firstn n s) in
         let rest := skipn n s in
         let k := X + zlen s - MAX_DIGITS f in
         10 ^ (MAX_DIGITS f - 1) <= N0 < 10 ^ MAX_DIGITS f /\
         (all0 rest = false -> RN f (decQ (digits_to_Z s) X) = RN f (decQ (N0 * 10 + 1) (k - 1))) /\
         (all0 rest = true ->
          digits_to_Z s = N0 * 10 ^ (zlen s - MAX_DIGITS f) /\
          decQ (digits_to_Z s) X == decQ N0 k /\ RN f (decQ (digits_to_Z s) X) = RN f (decQ N0 k)).
Proof. exact truncation_preserves_rounding. Qed.

Theorem C06_truncation_preserves_rounding_F64 :
  forall (s : list Z) (X : Z),
         forallb digitb s = true ->
         hd 48 s <> 48 ->
         MAX_DIGITS F64 < zlen s ->
         let n := Z.to_nat (MAX_DIGITS F64) in
         let N0 := digits_to_Z (firstn n s) in
         let rest := skipn n s in
         let k := X + zlen s - MAX_DIGITS F64 in
         10 ^ (MAX_DIGITS F64 - 1) <= N0 < 10 ^ MAX_DIGITS F64 /\
         (all0 rest = false -> RN F64 (decQ (digits_to_Z s) X) = RN F64 (decQ (N0 * 10 + 1) (k - 1))) /\
         (all0 rest = true ->
          digits_to_Z s = N0 * 10 ^ (zlen s - MAX_DIGITS F64) /\
          decQ (digits_to_Z s) X == decQ N0 k /\ RN F64 (decQ (digits_to_Z s) X) = RN F64 (decQ N0 k)).
Proof. exact truncation_preserves_rounding_F64. Qed.

Theorem C06_truncation_preserves_rounding_F32 :
  forall (s : list Z) (X : Z),
         forallb digitb s = true ->
         hd 48 s <> 48 ->
         MAX_DIGITS F32 < zlen s ->
         let n := Z.to_nat (MAX_DIGITS F32) in
         let N0 := digits_to_Z (firstn n s) in
         let rest := skipn n s in
         let k := X + zlen s - MAX_DIGITS F32 in
         10 ^ (MAX_DIGITS F32 - 1) <= N0 < 10 ^ MAX_DIGITS F32 /\
         (all0 rest = false -> RN F32 (decQ (digits_to_Z s) X) = RN F32 (decQ (N0 * 10 + 1) (k - 1))) /\
         (all0 rest = true ->
          digits_to_Z s = N0 * 10 ^ (zlen s - MAX_DIGITS F32) /\
          decQ (digits_to_Z s) X == decQ N0 k /\ RN F32 (decQ (digits_to_Z s) X) = RN F32 (decQ N0 k)).
Proof. exact truncation_preserves_rounding_F32. Qed.

Theorem C06_far_digit_breaks_tie :
  forall f : format,
         sfmt_ok f = true ->
         trunc_ok f = true ->
         forall (s : list Z) (X M E : Z),
         forallb digitb s = true ->
         hd 48 s <> 48 ->
         MAX_DIGITS f < zlen s ->
         canon0 f M E ->
         E + prec f <= emax f ->
         let n := Z.to_nat (MAX_DIGITS f) in
         let N0 := digits_to_Z (firstn n s) in
         let rest := skipn n s in
         let k := X + zlen s - MAX_DIGITS f in
         decQ N0 k == bndQ M E ->
         all0 rest = false ->
         RN f (decQ (digits_to_Z s) X) = RoundFacts.encode f M E + 1 /\
         RN f (decQ (N0 * 10 + 1) (k - 1)) = RoundFacts.encode f M E + 1.
Proof. exact far_digit_breaks_tie. Qed.

Theorem C06_nines_below_tie_round_down :
  forall f : format,
         sfmt_ok f = true ->
         trunc_ok f = true ->
         forall (s : list Z) (X M E : Z),
         forallb digitb s = true ->
         hd 48 s <> 48 ->
         MAX_DIGITS f < zlen s ->
         canon0 f M E ->
         E + prec f <= emax f ->
         let n := Z.to_nat (MAX_DIGITS f) in
         let N0 := digits_to_Z (firstn n s) in
         let rest := skipn n s in
         let k := X + zlen s - MAX_DIGITS f in
         decQ (N0 + 1) k == bndQ M E ->
         all0 rest = false ->
         RN f (decQ (digits_to_Z s) X) = RoundFacts.encode f M E /\
         RN f (decQ (N0 * 10 + 1) (k - 1)) = RoundFacts.encode f M E.
Proof. exact nines_below_tie_round_down. Qed.

Theorem C06_trailing_zeros_irrelevant :
  forall f : format,
         sfmt_ok f = true ->
         forall (s : list Z) (z : nat) (X : Z),
         forallb digitb s = true ->
         decQ (digits_to_Z (s ++ zeros z)) (X - Z.of_nat z) == decQ (digits_to_Z s) X /\
         RN f (decQ (digits_to_Z (s ++ zeros z)) (X - Z.of_nat z)) = RN f (decQ (digits_to_Z s) X).
Proof. exact trailing_zeros_irrelevant. Qed.


Print Assumptions C06_parse_number_spec.
Print Assumptions C06_parse_number_value_bracket.
Print Assumptions C06_trunc_ok_F32.
Print Assumptions C06_trunc_ok_F64.
Print Assumptions C06_boundary_digits.
Print Assumptions C06_no_boundary_in_cell.
Print Assumptions C06_RN_const_between.
Print Assumptions C06_RN_cell_const.
Print Assumptions C06_truncation_preserves_rounding.
Print Assumptions C06_truncation_preserves_rounding_F64.
Print Assumptions C06_truncation_preserves_rounding_F32.
Print Assumptions C06_far_digit_breaks_tie.
Print Assumptions C06_nines_below_tie_round_down.
Print Assumptions C06_trailing_zeros_irrelevant.
