(** C06 - arbitrarily long digit strings are still rounded correctly.  PROVED END TO END: [parse_float_correct_final]
    holds for every valid input of up to 2^28 digits - digits beyond the 19th and beyond the MAX_DIGITS-th
    change the result exactly when they move the exact value across a rounding boundary, because the
    result is RN of the EXACT value.  The ingredients: stage 1 keeps 19 digits + a truncation flag
    ([parse_number_spec]); [parse_mantissa_spec] keeps MAX_DIGITS digits + one sticky digit;
    [truncation_preserves_rounding] (every rounding boundary has at most MAX_DIGITS significant digits -
    [trunc_ok] is computed on the regenerated constant and holds for f64 iff MAX_DIGITS >= 768); and in
    the shape the property states: [far_digit_breaks_tie], [nines_below_tie_round_down],
    [trailing_zeros_irrelevant].
    Domain as in props/C01.v, no further premise.  Closed by [exact]. *)

From Coq Require Import ZArith QArith Qabs List Bool Reals Qreals.
From Coq Require Import Floats.SpecFloat.
From Flocq Require Import Core.Core.
From ML Require Import base.RustSem model.Fmt model.Num model.Number model.Parse model.Lemire model.Bellerophon model.Vec model.Bigint model.Slow model.Top
  spec.Decimal spec.Round spec.RoundFacts spec.DigitsSuffice gen.Consts gen.Tables gen.BTables gen.PowDump
  proofs.ParseFacts proofs.FastPathFacts proofs.EndToEnd proofs.EndToEnd2 proofs.EndToEnd3 proofs.EndToEnd4 proofs.EndToEnd5 proofs.EndToEnd6 proofs.EndToEnd7
  proofs.LemireFacts6 proofs.Glue proofs.TruncFacts proofs.TruncFacts2 proofs.SlowFacts1 proofs.DeepFallback proofs.DeepFallback2 proofs.Final.
Import ListNotations.

Open Scope Z_scope.

Theorem C06_parse_float_correct_final :
  forall (c : config) (f : format) (b : build) (i fr : list Z) (e : Z),
         In c ALL_CONFIGS ->
         f = F32 \/ f = F64 ->
         valid_inputb i fr e = true ->
         zlen i + zlen fr <= 2 ^ 28 -> PF c f b i fr e = Ok (RN f (dec_value i fr e)).
Proof. exact parse_float_correct_final. Qed.

Theorem C06_parse_number_spec :
  forall (b : build) (i f : list Z) (e : Z),
         valid_inputb i f e = true ->
         exists n : number,
           parse_number b i f e = Ok n /\
           0 <= nmant n < 2 ^ 64 /\
           i32_min <= nexp n <= i32_max /\
           (let D := digits_to_Z (i ++ f) in
            let X := e - zlen f in
            let s := strip0 (i ++ f) in
            many n = (19 <? zlen s) /\
            nmant n = digits_to_Z (firstn 19 s) /\
            nexp n = clamp_i32 (X + Z.max 0 (zlen s - 19)) /\
            (many n = false ->
             nmant n = D /\ D < 10 ^ 19 /\ nexp n = clamp_i32 X /\ clamp_i32 X = Z.max i32_min X) /\
            (many n = true ->
             10 ^ 18 <= nmant n < 10 ^ 19 /\
             (exists k : Z,
                k = zlen s - 19 /\
                1 <= k <= zlen i + zlen f - 19 /\
                nmant n * 10 ^ k <= D < (nmant n + 1) * 10 ^ k /\ nexp n = clamp_i32 (X + k))) /\
            (D = 0 -> nmant n = 0 /\ many n = false) /\
            (nmant n = 0 -> D = 0) /\ (zlen i + zlen f <= 19 -> many n = false)).
Proof. exact parse_number_spec. Qed.

Theorem C06_parse_number_value_bracket :
  forall (b : build) (i f : list Z) (e : Z) (n : number),
         valid_inputb i f e = true ->
         parse_number b i f e = Ok n ->
         let X := e - zlen f in
         (many n = false -> dec_value i f e == inject_Z (nmant n) * pow10Q X /\ nexp n = clamp_i32 X) /\
         (many n = true ->
          exists k : Z,
            1 <= k /\
            k = zlen (strip0 (i ++ f)) - 19 /\
            nexp n = clamp_i32 (X + k) /\
            (inject_Z (nmant n) * pow10Q (X + k) <= dec_value i f e < inject_Z (nmant n + 1) * pow10Q (X + k))%Q).
Proof. exact parse_number_value_bracket. Qed.

Theorem C06_parse_mantissa_spec :
  forall (c : config) (T : tables) (L : limits) (b : build) (maxd : Z) (i fr : list Z),
         pm_tables_ok c T = true ->
         10 ^ (maxd + 1) <= B64 ^ BIGINT_LIMBS L ->
         0 < maxd ->
         forallb digitb i = true ->
         forallb digitb fr = true ->
         (forall (ch : Z) (r : list Z), i = ch :: r -> ch <> 48) ->
         let s := strip0 (i ++ fr) in
         let D := zlen s in
         let k := Z.to_nat maxd in
         exists (v : vec) (cnt : Z),
           parse_mantissa c T L b i fr maxd = Ok (v, cnt) /\
           vgood c L v /\
           (D <= maxd -> LimbVal.lval (vl v) = digits_to_Z s /\ cnt = D) /\
           (maxd < D ->
            if all0 (skipn k s)
            then LimbVal.lval (vl v) = digits_to_Z (firstn k s) /\ cnt = maxd
            else LimbVal.lval (vl v) = digits_to_Z (firstn k s) * 10 + 1 /\ cnt = maxd + 1) /\
           (s <> [] -> 0 < LimbVal.lval (vl v)) /\
           0 <= LimbVal.lval (vl v) < 10 ^ (maxd + 1) /\ 0 <= cnt <= maxd + 1.
Proof. exact parse_mantissa_spec. Qed.

Theorem C06_trunc_ok_F32 :
  trunc_ok F32 = true.
Proof. exact trunc_ok_F32. Qed.

Theorem C06_trunc_ok_F64 :
  trunc_ok F64 = true.
Proof. exact trunc_ok_F64. Qed.

Theorem C06_boundary_digits :
  forall (f : format) (M E : Z),
         trunc_ok f = true ->
         boundary f M E -> exists c j : Z, 0 < c < 10 ^ MAX_DIGITS f /\ bndQ M E == decQ c j.
Proof. exact boundary_digits. Qed.

Theorem C06_no_boundary_in_cell :
  forall (f : format) (N0 k M E : Z),
         trunc_ok f = true ->
         boundary f M E ->
         10 ^ (MAX_DIGITS f - 1) <= N0 -> (decQ N0 k < bndQ M E)%Q -> (bndQ M E < decQ (N0 + 1) k)%Q -> False.
Proof. exact no_boundary_in_cell. Qed.

Theorem C06_RN_const_between :
  forall f : format,
         sfmt_ok f = true ->
         forall v1 v2 : Q,
         (0 <= v1)%Q ->
         (v1 <= v2)%Q ->
         (forall M E : Z, boundary f M E -> (v1 <= bndQ M E)%Q -> (bndQ M E <= v2)%Q -> False) ->
         RN f v1 = RN f v2.
Proof. exact RN_const_between. Qed.

Theorem C06_truncation_preserves_rounding :
  forall f : format,
         sfmt_ok f = true ->
         trunc_ok f = true ->
         forall (s : list Z) (X : Z),
         forallb digitb s = true ->
         hd 48 s <> 48 ->
         MAX_DIGITS f < zlen s ->
         let n := Z.to_nat (MAX_DIGITS f) in
         let N0 := digits_to_Z (firstn n s) in
         let rest := skipn n s in
         let k := X + zlen s - MAX_DIGITS f in
         10 ^ (MAX_DIGITS f - 1) <= N0 < 10 ^ MAX_DIGITS f /\
         (TruncFacts.all0 rest = false -> RN f (decQ (digits_to_Z s) X) = RN f (decQ (N0 * 10 + 1) (k - 1))) /\
         (TruncFacts.all0 rest = true ->
          digits_to_Z s = N0 * 10 ^ (zlen s - MAX_DIGITS f) /\
          decQ (digits_to_Z s) X == decQ N0 k /\ RN f (decQ (digits_to_Z s) X) = RN f (decQ N0 k)).
Proof. exact truncation_preserves_rounding. Qed.

Theorem C06_far_digit_breaks_tie :
  forall f : format,
         sfmt_ok f = true ->
         trunc_ok f = true ->
         forall (s : list Z) (X M E : Z),
         forallb digitb s = true ->
         hd 48 s <> 48 ->
         MAX_DIGITS f < zlen s ->
         canon0 f M E ->
         E + prec f <= emax f ->
         let n := Z.to_nat (MAX_DIGITS f) in
         let N0 := digits_to_Z (firstn n s) in
         let rest := skipn n s in
         let k := X + zlen s - MAX_DIGITS f in
         decQ N0 k == bndQ M E ->
         TruncFacts.all0 rest = false ->
         RN f (decQ (digits_to_Z s) X) = encode f M E + 1 /\
         RN f (decQ (N0 * 10 + 1) (k - 1)) = encode f M E + 1.
Proof. exact far_digit_breaks_tie. Qed.

Theorem C06_nines_below_tie_round_down :
  forall f : format,
         sfmt_ok f = true ->
         trunc_ok f = true ->
         forall (s : list Z) (X M E : Z),
         forallb digitb s = true ->
         hd 48 s <> 48 ->
         MAX_DIGITS f < zlen s ->
         canon0 f M E ->
         E + prec f <= emax f ->
         let n := Z.to_nat (MAX_DIGITS f) in
         let N0 := digits_to_Z (firstn n s) in
         let rest := skipn n s in
         let k := X + zlen s - MAX_DIGITS f in
         decQ (N0 + 1) k == bndQ M E ->
         TruncFacts.all0 rest = false ->
         RN f (decQ (digits_to_Z s) X) = encode f M E /\ RN f (decQ (N0 * 10 + 1) (k - 1)) = encode f M E.
Proof. exact nines_below_tie_round_down. Qed.

Theorem C06_trailing_zeros_irrelevant :
  forall f : format,
         sfmt_ok f = true ->
         forall (s : list Z) (z : nat) (X : Z),
         forallb digitb s = true ->
         decQ (digits_to_Z (s ++ zeros z)) (X - Z.of_nat z) == decQ (digits_to_Z s) X /\
         RN f (decQ (digits_to_Z (s ++ zeros z)) (X - Z.of_nat z)) = RN f (decQ (digits_to_Z s) X).
Proof. exact trailing_zeros_irrelevant. Qed.


Print Assumptions C06_parse_float_correct_final.
Print Assumptions C06_parse_number_spec.
Print Assumptions C06_parse_number_value_bracket.
Print Assumptions C06_parse_mantissa_spec.
Print Assumptions C06_trunc_ok_F32.
Print Assumptions C06_trunc_ok_F64.
Print Assumptions C06_boundary_digits.
Print Assumptions C06_no_boundary_in_cell.
Print Assumptions C06_RN_const_between.
Print Assumptions C06_truncation_preserves_rounding.
Print Assumptions C06_far_digit_breaks_tie.
Print Assumptions C06_nines_below_tie_round_down.
Print Assumptions C06_trailing_zeros_irrelevant.

(** SOURCE TIE (tools/rs2coq): slow::parse_mantissa (the big-integer digit accumulation with MAX_DIGITS truncation and the sticky digit; macros expanded, labelled loops kept) is regenerated as Gallina from src/slow.rs on every run (coq/gen/SrcSlow.v) and proved EQUAL to the hand-written model function, for arbitrary byte lists, every max_digits, both build modes, both back-ends. *)
From ML Require Import model.SrcLib gen.Src gen.SrcBigint gen.SrcSlow gen.SrcParse proofs.SrcEqMantissa.

Theorem C06_rs_parse_mantissa_eq :
  forall (c : config) (T : tables) (L : limits) (b : build) (i fr : list Z) (maxd : Z),
         (compact c = false -> LimbVal.limbs_ok (SMALL_INT_POW10 T)) ->
         zlen i + zlen fr + 1 < 2 ^ 64 ->
         rs_parse_mantissa c T L b i fr maxd = parse_mantissa c T L b i fr maxd.
Proof. exact rs_parse_mantissa_eq. Qed.

Theorem C06_rs_parse_mantissa_eq_TABLES :
  forall (c : config) (L : limits) (b : build) (i fr : list Z) (maxd : Z),
         zlen i + zlen fr < 2 ^ 63 ->
         rs_parse_mantissa c TABLES L b i fr maxd = parse_mantissa c TABLES L b i fr maxd.
Proof. exact rs_parse_mantissa_eq_TABLES. Qed.

Print Assumptions C06_rs_parse_mantissa_eq.
Print Assumptions C06_rs_parse_mantissa_eq_TABLES.

(** SOURCE TIE for the big-integer stage of src/slow.rs (regenerated on every run, coq/gen/SrcSlow.v) = model, for the tables of the crate. *)
From ML Require Import model.SrcLib model.SrcLibFront gen.Src gen.SrcBigint gen.SrcSlow gen.SrcParse gen.SrcFrontSimple gen.SrcFrontEtc gen.SrcFrontFuzz gen.SrcFrontTest proofs.SrcEqParse proofs.SrcEqSlow proofs.SrcEqFront proofs.SrcFinal.

Theorem C06_rs_positive_digit_comp_eq_TABLES :
  forall (c : config) (f : format) (b : build) (big : vec) (e : Z),
         SrcEqBase.fmt_ok f ->
         LimbVal.limbs_ok (vl big) ->
         zlen (vl big) < 2 ^ 63 ->
         rs_positive_digit_comp c TABLES LIMITS f b big e = positive_digit_comp c TABLES LIMITS f b big e.
Proof. exact rs_positive_digit_comp_eq_TABLES. Qed.

Theorem C06_rs_negative_digit_comp_eq_TABLES :
  forall (c : config) (f : format) (b : build) (big : vec) (fp : extfloat) (e : Z),
         SrcEqBase.fmt_ok f ->
         rs_negative_digit_comp c TABLES LIMITS f b big fp e = negative_digit_comp c TABLES LIMITS f b big fp e.
Proof. exact rs_negative_digit_comp_eq_TABLES. Qed.

Theorem C06_rs_slow_eq_TABLES :
  forall (c : config) (f : format) (b : build) (n : number) (fp : extfloat) (i fr : list Z),
         SrcEqBase.fmt_ok f ->
         zlen i + zlen fr < 2 ^ 63 ->
         rs_slow c TABLES LIMITS f b n fp i fr = slow c TABLES LIMITS f b n fp i fr.
Proof. exact rs_slow_eq_TABLES. Qed.

Print Assumptions C06_rs_positive_digit_comp_eq_TABLES.
Print Assumptions C06_rs_negative_digit_comp_eq_TABLES.
Print Assumptions C06_rs_slow_eq_TABLES.
