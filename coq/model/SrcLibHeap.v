(** * SrcLibHeap: the methods of `std::vec::Vec<Limb>` that src/heapvec.rs calls, for
    gen/SrcHeapVec.v (tools/rs2coq, rule 31).  HAND-WRITTEN AND TRUSTED; no axioms, nothing
    admitted.  A `Vec` is the record [vec] of model/Vec.v ([vl] = contents, [vcap] = capacity);
    the capacity follows std's amortised growth ([grow]), exactly as the heap case ([heap = true])
    of model/Vec.v. *)
From Coq Require Import ZArith List Bool.
From ML Require Import base.RustSem model.Fmt model.Vec.
Import ListNotations.
Open Scope Z_scope.

(** `Vec::with_capacity(n)` *)
Definition std_with_capacity (n : Z) : vec := mkVec [] n.

(** `v.push(x)` *)
Definition std_push (v : vec) (x : Z) : vec :=
  mkVec (vl v ++ [x]) (if vlen v =? vcap v then grow (vcap v) (vlen v + 1) else vcap v).

(** `v.pop()`: the item and the shortened vector *)
Definition std_pop (v : vec) : option Z * vec := vpop v.

(** `v.extend_from_slice(s)` *)
Definition std_extend (v : vec) (s : list Z) : vec :=
  mkVec (vl v ++ s) (if vcap v - vlen v <? zlen s then grow (vcap v) (vlen v + zlen s) else vcap v).

(** `v.resize(n, x)` *)
Definition std_resize (v : vec) (n x : Z) : vec :=
  mkVec (resize_list (vl v) n x)
        (if (vlen v <? n) && (vcap v - vlen v <? n - vlen v) then grow (vcap v) n else vcap v).

(** `unsafe { v.set_len(n) }`: shrinking keeps the first [n] elements; growing - within or beyond
    the capacity - would expose elements that were never written *)
Definition std_set_len (v : vec) (n : Z) : outcome vec :=
  if (0 <=? n) && (n <=? vlen v) then Ok (mkVec (firstn (Z.to_nat n) (vl v)) (vcap v)) else UB UbSetLen.
