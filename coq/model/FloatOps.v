(** * FloatOps: the IEEE operations the fast path uses (`u64 as f`, `*`, `/`), modelled by the
    computable specification of IEEE arithmetic in Coq's standard library
    ([Floats.SpecFloat]: [SFmul], [SFdiv], [binary_normalize], all round-to-nearest-even),
    on raw bit patterns. *)
From Coq Require Import ZArith Bool List.
From Coq Require Import Floats.SpecFloat.
From ML Require Import base.RustSem model.Fmt.
Open Scope Z_scope.

Section WithFormat.
Variable f : format.

Definition sf_of_bits (x : Z) : spec_float :=
  let mw := MANTISSA_SIZE f in
  let ew := ewidth f in
  let m := x mod 2 ^ mw in
  let e := (x / 2 ^ mw) mod 2 ^ ew in
  let s := negb ((x / 2 ^ (mw + ew)) mod 2 =? 0) in
  if e =? 0 then
    match m with Zpos p => S754_finite s p (femin f) | _ => S754_zero s end
  else if e =? 2 ^ ew - 1 then
    (if m =? 0 then S754_infinity s else S754_nan)
  else
    match m + 2 ^ mw with Zpos p => S754_finite s p (e + femin f - 1) | _ => S754_nan end.

Definition bits_of_sf (x : spec_float) : Z :=
  let mw := MANTISSA_SIZE f in
  let ew := ewidth f in
  let sb (s : bool) := if s then 2 ^ (mw + ew) else 0 in
  match x with
  | S754_zero s => sb s
  | S754_infinity s => sb s + (2 ^ ew - 1) * 2 ^ mw
  | S754_nan => (2 ^ ew - 1) * 2 ^ mw + 2 ^ (mw - 1)
  | S754_finite s m e =>
      sb s + (if Zpos m <? 2 ^ mw then Zpos m
              else (e - femin f + 1) * 2 ^ mw + (Zpos m - 2 ^ mw))
  end.

(** `u as f32` / `u as f64` for a u64: round to nearest, ties to even *)
Definition f_from_u64 (u : Z) : Z :=
  bits_of_sf (binary_normalize (prec f) (emax f) u 0 false).

Definition f_mul (x y : Z) : Z :=
  bits_of_sf (SFmul (prec f) (emax f) (sf_of_bits x) (sf_of_bits y)).

Definition f_div (x y : Z) : Z :=
  bits_of_sf (SFdiv (prec f) (emax f) (sf_of_bits x) (sf_of_bits y)).

(** negation flips the sign bit *)
Definition f_neg (x : Z) : Z :=
  let sb := 2 ^ (fbits f - 1) in
  if x <? sb then x + sb else x - sb.

End WithFormat.
