(** * Slow: model of src/slow.rs *)
From Coq Require Import ZArith Bool List.
From ML Require Import base.RustSem model.Fmt model.Mask model.Num model.Number model.Rounding
  model.Vec model.Bigint.
Import ListNotations.
Open Scope Z_scope.

Section WithConfig.
Variable c : config.
Variable T : tables.
Variable L : limits.
Variable f : format.
Variable b : build.

Let heap := alloc c.

(** ** scientific_exponent: three `while mantissa >= 10^k` loops (fuel 20 each; a u64 has at most
    20 decimal digits, so the fuel is never exhausted) *)
Fixpoint sci_loop (fuel : nat) (k step m e : Z) : outcome (Z * Z) :=
  if k <=? m then
    match fuel with
    | O => Panic PkFuel
    | S fuel' => e' <- i32_add b e step ;; sci_loop fuel' k step (m / k) e'
    end
  else Ok (m, e).

Definition scientific_exponent (n : number) : outcome Z :=
  '(m1, e1) <- sci_loop 20 10000 4 (nmant n) (nexp n) ;;
  '(m2, e2) <- sci_loop 20 100 2 m1 e1 ;;
  '(_, e3) <- sci_loop 20 10 1 m2 e2 ;;
  Ok e3.

(** ** b and b+h *)
Definition float_b (x : Z) : outcome extfloat :=
  m <- float_mantissa f b x ;;
  e <- float_exponent f b x ;;
  Ok (mkExt m e).

Definition float_bh (x : Z) : outcome extfloat :=
  fp <- float_b x ;;
  m1 <- u64_shl b (mant fp) 1 ;;
  m <- u64_add b m1 1 ;;
  e <- i32_sub b (exp fp) 1 ;;
  Ok (mkExt m e).

(** ** parse_mantissa *)
Record pm_state := mkPm { pm_counter : Z; pm_count : Z; pm_value : Z; pm_result : vec }.

Definition pm_step := 19.
Definition pm_max_native := 10000000000000000000.   (* (10 as Limb).pow(19), compile-time *)

(** `add_digit!` *)
Definition pm_add_digit (ch : Z) (s : pm_state) : outcome pm_state :=
  d <- u8_sub b ch 48 ;;
  v1 <- u64_mul b (pm_value s) 10 ;;
  v2 <- u64_add b v1 d ;;
  Ok (mkPm (pm_counter s + 1) (pm_count s + 1) v2 (pm_result s)).

(** `add_temporary!(@mul result, power, value)`: `mul_small(power).unwrap(); add_small(value).unwrap()` *)
Definition pm_mul_add (r : vec) (power value : Z) : outcome vec :=
  r1 <- unwrap (small_mul c r power) ;;
  unwrap (small_add c r1 value).

(** `add_temporary!(@end ...)` *)
Definition pm_flush_end (s : pm_state) : outcome pm_state :=
  if negb (pm_counter s =? 0) then
    sp <- int_pow_fast_path c T b (pm_counter s) true ;;
    r <- pm_mul_add (pm_result s) sp (pm_value s) ;;
    Ok (mkPm (pm_counter s) (pm_count s) (pm_value s) r)
  else Ok s.

(** `add_temporary!(@max ...)` *)
Definition pm_flush_max (s : pm_state) : outcome pm_state :=
  r <- pm_mul_add (pm_result s) pm_max_native (pm_value s) ;;
  Ok (mkPm 0 (pm_count s) 0 r).

(** `round_up_nonzero!`: scan the rest for a non-zero digit; if found, `*10 + 1`, count += 1 *)
Fixpoint pm_round_up (l : list Z) (s : pm_state) : outcome (pm_state * bool) :=
  match l with
  | [] => Ok (s, false)
  | d :: r =>
      if negb (d =? 48) then
        r1 <- pm_mul_add (pm_result s) 10 1 ;;
        Ok (mkPm (pm_counter s) (pm_count s + 1) (pm_value s) r1, true)
      else pm_round_up r s
  end.

Inductive pm_head := PmRead (s : pm_state) | PmFinish (s : pm_state) | PmDiverge.

(** where control is at the head of the inner `while counter < step && count < max_digits` *)
Definition pm_settle (maxd : Z) (s : pm_state) : outcome pm_head :=
  if (pm_counter s <? pm_step) && (pm_count s <? maxd) then Ok (PmRead s)
  else if pm_count s =? maxd then Ok (PmFinish s)
  else
    s' <- pm_flush_max s ;;
    if pm_count s' <? maxd then Ok (PmRead s') else Ok PmDiverge.

(** integer phase: [inl s] = `break 'integer`, [inr (result, count)] = returned *)
Fixpoint pm_int (maxd : Z) (l : list Z) (fr : list Z) (s : pm_state) : outcome (pm_state + (vec * Z)) :=
  h <- pm_settle maxd s ;;
  match h with
  | PmDiverge => Panic PkFuel
  | PmFinish s1 =>
      s2 <- pm_flush_end s1 ;;
      '(s3, hit) <- pm_round_up l s2 ;;
      if hit then Ok (inr (pm_result s3, pm_count s3))
      else
        '(s4, _) <- pm_round_up fr s3 ;;
        Ok (inr (pm_result s4, pm_count s4))
  | PmRead s1 =>
      match l with
      | [] => Ok (inl s1)
      | ch :: r => s2 <- pm_add_digit ch s1 ;; pm_int maxd r fr s2
      end
  end.

(** skipping leading fraction zeros when `count == 0` *)
Fixpoint pm_skip (l : list Z) (s : pm_state) : outcome (pm_state * list Z) :=
  match l with
  | [] => Ok (s, [])
  | ch :: r =>
      if negb (ch =? 48) then s' <- pm_add_digit ch s ;; Ok (s', r)
      else pm_skip r s
  end.

Fixpoint pm_frac (maxd : Z) (l : list Z) (s : pm_state) : outcome (vec * Z) :=
  h <- pm_settle maxd s ;;
  match h with
  | PmDiverge => Panic PkFuel
  | PmFinish s1 =>
      s2 <- pm_flush_end s1 ;;
      '(s3, _) <- pm_round_up l s2 ;;
      Ok (pm_result s3, pm_count s3)
  | PmRead s1 =>
      match l with
      | [] => s2 <- pm_flush_end s1 ;; Ok (pm_result s2, pm_count s2)
      | ch :: r => s2 <- pm_add_digit ch s1 ;; pm_frac maxd r s2
      end
  end.

Definition parse_mantissa (i fr : list Z) (maxd : Z) : outcome (vec * Z) :=
  r <- pm_int maxd i fr (mkPm 0 0 0 (vnew L)) ;;
  match r with
  | inr res => Ok res
  | inl s =>
      '(s1, fr1) <- (if pm_count s =? 0 then pm_skip fr s else Ok (s, fr)) ;;
      pm_frac maxd fr1 s1
  end.

(** ** the two digit comparisons *)
Definition positive_digit_comp (bigmant : vec) (exponent : Z) : outcome extfloat :=
  o <- bigint_pow c T L b bigmant 10 (as_u32 exponent) ;;
  big <- unwrap o ;;
  '(m, is_truncated) <- hi64 b (vl big) ;;
  bl <- bit_length L b (vl big) ;;
  t <- i32_sub b (as_i32 bl) 64 ;;
  e <- i32_add b t (EXPONENT_BIAS f) ;;
  round f b (mkExt m e) (fun fp s =>
    round_nearest_tie_even b fp s (fun is_odd is_halfway is_above =>
      is_above || (is_halfway && is_truncated) || (is_odd && is_halfway))).

Definition negative_digit_comp (bigmant : vec) (fp : extfloat) (exponent : Z) : outcome extfloat :=
  debug_assert b (negb (Z.land (mant fp) (2 ^ 63) =? 0)) ;;;
  debug_assert b (exponent <? 0) ;;;
  bfp <- round f b fp (round_down b) ;;
  bbits <- extended_to_float f b bfp ;;
  theor <- float_bh bbits ;;
  theor_digits0 <- from_u64 c L b (mant theor) ;;
  binary_exp <- i32_sub b (exp theor) exponent ;;
  halfradix_exp <- i32_neg b exponent ;;
  theor_digits1 <- (if negb (halfradix_exp =? 0) then
                      o <- bigint_pow c T L b theor_digits0 5 (as_u32 halfradix_exp) ;; unwrap o
                    else Ok theor_digits0) ;;
  '(theor_digits, real_digits) <-
     (if 0 <? binary_exp then
        o <- bigint_pow c T L b theor_digits1 2 (as_u32 binary_exp) ;; t <- unwrap o ;; Ok (t, bigmant)
      else if binary_exp <? 0 then
        nb <- i32_neg b binary_exp ;;
        o <- bigint_pow c T L b bigmant 2 (as_u32 nb) ;; r <- unwrap o ;; Ok (theor_digits1, r)
      else Ok (theor_digits1, bigmant)) ;;
  let ord := vcompare (vl real_digits) (vl theor_digits) in
  round f b fp (fun fp s =>
    round_nearest_tie_even b fp s (fun is_odd _ _ =>
      match ord with
      | Gt => true
      | Lt => false
      | Eq => is_odd
      end)).

Definition slow (n : number) (fp : extfloat) (i fr : list Z) : outcome extfloat :=
  debug_assert b (negb (Z.land (mant fp) (2 ^ 63) =? 0)) ;;;
  sci_exp <- scientific_exponent n ;;
  '(bigmant, digits) <- parse_mantissa i fr (MAX_DIGITS f) ;;
  t <- i32_add b sci_exp 1 ;;
  exponent <- i32_sub b t (as_i32 digits) ;;
  if 0 <=? exponent then positive_digit_comp bigmant exponent
  else negative_digit_comp bigmant fp exponent.

End WithConfig.
