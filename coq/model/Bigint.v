(** * Bigint: model of src/bigint.rs over the list-level vectors of Vec.v.
    Fallible operations return [outcome (option _)]: [Ok None] is Rust's `None` (capacity
    exhausted), [Panic] a failed assertion / overflow check / index. *)
From Coq Require Import ZArith Bool List.
From ML Require Import base.RustSem model.Fmt model.Vec model.Number.
Import ListNotations.
Open Scope Z_scope.

(** the `?` operator inside a function returning Option, under [outcome] *)
Definition obind {A B} (x : outcome (option A)) (f : A -> outcome (option B)) : outcome (option B) :=
  bind x (fun o => match o with Some a => f a | None => Ok None end).
Notation "x <-? e ;; f" := (obind e (fun x => f))
  (at level 61, e at next level, right associativity) : rust_scope.
Notation "' pat <-? e ;; f" := (obind e (fun x => match x with pat => f end))
  (at level 61, pat pattern, e at next level, right associativity) : rust_scope.
Definition oret {A} (o : option A) : outcome (option A) := Ok o.

Definition B64 := 2 ^ 64.

(** ** compare / normalize *)
Fixpoint cmp_be (x y : list Z) : comparison :=   (* most significant limb first, equal lengths *)
  match x, y with
  | a :: x', b :: y' => match a ?= b with Eq => cmp_be x' y' | o => o end
  | _, _ => Eq
  end.

Definition vcompare (x y : list Z) : comparison :=
  match zlen x ?= zlen y with
  | Eq => cmp_be (rev x) (rev y)
  | o => o
  end.

Fixpoint strip_zeros (r : list Z) : list Z :=   (* on the reversed list *)
  match r with
  | 0 :: r' => strip_zeros r'
  | _ => r
  end.
Definition normalize_list (l : list Z) : list Z := rev (strip_zeros (rev l)).
Definition is_normalized (l : list Z) : bool :=
  match rev l with 0 :: _ => false | _ => true end.

(** ** scalar *)
Definition scalar_add (x y : Z) : Z * bool := ((x + y) mod B64, B64 <=? x + y).
Definition scalar_mul (x y carry : Z) : Z * Z :=
  let z := x * y + carry in (z mod B64, z / B64).

(** ** small *)
Fixpoint add_carry (l : list Z) (carry : Z) : list Z * Z :=
  match l with
  | [] => ([], carry)
  | x :: r =>
      if carry =? 0 then (l, 0)
      else
        let '(s, c) := scalar_add x carry in
        let '(r', c') := add_carry r (if c then 1 else 0) in
        (s :: r', c')
  end.

Fixpoint mul_carry (l : list Z) (y carry : Z) : list Z * Z :=
  match l with
  | [] => ([], carry)
  | x :: r =>
      let '(lo, hi) := scalar_mul x y carry in
      let '(r', c') := mul_carry r y hi in
      (lo :: r', c')
  end.

Section WithConfig.
Variable c : config.
Variable T : tables.
Variable L : limits.
Variable b : build.

Let heap := alloc c.
Let push := try_push heap.

Definition small_add_from (v : vec) (y start : Z) : option vec :=
  let n := Z.to_nat start in
  let '(suf, carry) := add_carry (skipn n (vl v)) y in
  let v' := vset_list v (firstn n (vl v) ++ suf) in
  if negb (carry =? 0) then push v' carry else Some v'.

Definition small_add (v : vec) (y : Z) : option vec := small_add_from v y 0.

Definition small_mul (v : vec) (y : Z) : option vec :=
  let '(l, carry) := mul_carry (vl v) y 0 in
  let v' := vset_list v l in
  if negb (carry =? 0) then push v' carry else Some v'.

(** what the vector holds after a *failed* `small_add` / `small_mul` (the limbs are updated in
    place before the final carry is pushed; only the carry is lost) *)
Definition small_add_failed (v : vec) (y : Z) : vec := vset_list v (fst (add_carry (vl v) y)).
Definition small_mul_failed (v : vec) (y : Z) : vec := vset_list v (fst (mul_carry (vl v) y 0)).

(** ** large *)
(** the `for (index, &yi) in y.iter().enumerate()` loop of `large_add_from` on the part of x
    starting at `start` (which is at least as long as y after the resize) *)
Fixpoint add_lists (x y : list Z) (carry : bool) : list Z * bool :=
  match y with
  | [] => (x, carry)
  | yi :: y' =>
      match x with
      | [] => ([], carry)      (* unreachable after the resize *)
      | xi :: x' =>
          let '(s, c1) := scalar_add xi yi in
          let '(s', c2) := if carry then scalar_add s 1 else (s, false) in
          let '(r, cf) := add_lists x' y' (c1 || c2) in
          (s' :: r, cf)
      end
  end.

Definition large_add_from (v : vec) (y : list Z) (start : Z) : option vec :=
  match (if usize_saturating_sub (vlen v) start <? zlen y
         then try_resize heap v (zlen y + start) 0 else Some v) with
  | None => None
  | Some v1 =>
      let n := Z.to_nat start in
      let '(suf, carry) := add_lists (skipn n (vl v1)) y false in
      let v2 := vset_list v1 (firstn n (vl v1) ++ suf) in
      if carry then small_add_from v2 1 (zlen y + start) else Some v2
  end.

Definition large_add (v : vec) (y : list Z) : option vec := large_add_from v y 0.

(** the `for (index, &yi) in y.iter().enumerate().skip(1)` loop of `long_mul` *)
Fixpoint long_mul_loop (x : list Z) (ys : list Z) (index : Z) (z : vec) : option vec :=
  match ys with
  | [] => Some z
  | yi :: ys' =>
      if negb (yi =? 0) then
        match try_from heap L x with
        | None => None
        | Some zi =>
            match small_mul zi yi with
            | None => None
            | Some zi' =>
                match large_add_from z (vl zi') index with
                | None => None
                | Some z' => long_mul_loop x ys' (index + 1) z'
                end
            end
        end
      else long_mul_loop x ys' (index + 1) z
  end.

Definition long_mul (x y : list Z) : option vec :=
  match try_from heap L x with
  | None => None
  | Some z =>
      match y with
      | [] => Some (vset_list z (normalize_list (vl z)))
      | y0 :: ys =>
          match small_mul z y0 with
          | None => None
          | Some z1 =>
              match long_mul_loop x ys 1 z1 with
              | None => None
              | Some z2 => Some (vset_list z2 (normalize_list (vl z2)))
              end
          end
      end
  end.

Definition large_mul (v : vec) (y : list Z) : option vec :=
  match y with
  | [y0] => small_mul v y0
  | _ => long_mul y (vl v)
  end.

(** ** shifts *)
Fixpoint shl_bits_loop (l : list Z) (nn rr prev : Z) : list Z * Z :=
  match l with
  | [] => ([], prev)
  | x :: r =>
      let x' := Z.lor ((x * 2 ^ nn) mod B64) (prev / 2 ^ rr) in
      let '(r', p) := shl_bits_loop r nn rr x in
      (x' :: r', p)
  end.

(** effective shift amount of a 64-bit shift in a build without overflow checks *)
Definition eff (k : Z) : Z := if (0 <=? k) && (k <? 64) then k else k mod 64.

Definition shl_bits (v : vec) (n : Z) : outcome (option vec) :=
  debug_assert b (negb (n =? 0)) ;;;
  debug_assert b (n <? LIMB_BITS L) ;;;
  rshift <- usize_sub b (LIMB_BITS L) n ;;
  (* the per-limb `<<= lshift` / `>> rshift` panic outside 0..63 with overflow checks *)
  (if negb (vlen v =? 0) then u64_shl b 0 n ;;; u64_shr b 0 rshift ;;; Ok tt else Ok tt) ;;;
  let '(l, prev) := shl_bits_loop (vl v) (eff n) (eff rshift) 0 in
  carry <- u64_shr b prev rshift ;;
  let v' := vset_list v l in
  if negb (carry =? 0) then Ok (push v' carry) else Ok (Some v').

Definition shl_limbs (v : vec) (n : Z) : outcome (option vec) :=
  debug_assert b (negb (n =? 0)) ;;;
  s <- usize_add b n (vlen v) ;;
  if vcap v <? s then Ok None
  else if negb (vlen v =? 0) then Ok (Some (vset_list v (repeat 0 (Z.to_nat n) ++ vl v)))
  else Ok (Some v).

Definition shl (v : vec) (n : Z) : outcome (option vec) :=
  let rem := n mod LIMB_BITS L in
  let div := n / LIMB_BITS L in
  v1 <-? (if negb (rem =? 0) then shl_bits v rem else Ok (Some v)) ;;
  if negb (div =? 0) then shl_limbs v1 div else Ok (Some v1).

(** ** leading zeros, bit length *)
Definition leading_zeros (l : list Z) : Z :=
  match rev l with
  | x :: _ => lz64 x
  | [] => 0
  end.

Definition bit_length (l : list Z) : outcome Z :=
  let nlz := leading_zeros l in
  p <- uop b 32 (as_u32 (LIMB_BITS L) * as_u32 (zlen l)) ;;
  uop b 32 (p - nlz).

(** ** hi64 *)
Definition nonzero (l : list Z) (rindex : Z) : outcome bool :=
  debug_assert b (rindex <=? zlen l) ;;;
  k <- usize_sub b (zlen l) rindex ;;
  if zlen l <? k then Panic PkIndex
  else Ok (existsb (fun x => negb (x =? 0)) (firstn (Z.to_nat k) l)).

Definition u64_to_hi64_1 (r0 : Z) : outcome (Z * bool) :=
  let ls := lz64 r0 in
  v <- u64_shl b r0 ls ;;
  Ok (v, false).

Definition u64_to_hi64_2 (r0 r1 : Z) : outcome (Z * bool) :=
  let ls := lz64 r0 in
  rs <- uop b 32 (64 - ls) ;;
  v <- (if ls =? 0 then Ok r0
        else hi <- u64_shl b r0 ls ;; lo <- u64_shr b r1 rs ;; Ok (Z.lor hi lo)) ;;
  t <- u64_shl b r1 ls ;;
  Ok (v, negb (t =? 0)).

Definition hi64 (l : list Z) : outcome (Z * bool) :=
  match rev l with
  | [] => Ok (0, false)
  | [r0] => u64_to_hi64_1 r0
  | [r0; r1] => u64_to_hi64_2 r0 r1
  | r0 :: r1 :: _ =>
      '(v, n) <- u64_to_hi64_2 r0 r1 ;;
      (* `n || nonzero(x, 2)` short-circuits *)
      if n then Ok (v, true) else nz <- nonzero l 2 ;; Ok (v, nz)
  end.

(** ** from_u64 *)
Definition from_u64 (x : Z) : outcome vec :=
  let v0 := vnew L in
  debug_assert b (2 <=? vcap v0) ;;;
  v1 <- unwrap (push v0 x) ;;
  Ok (vset_list v1 (normalize_list (vl v1))).

(** ** powers *)
(** `while exp >= LARGE_POW5_STEP { large_mul(x, &LARGE_POW5)?; exp -= STEP }` *)
Fixpoint pow_large_loop (fuel : nat) (v : vec) (e : Z) : option (vec * Z) :=
  if LARGE_POW5_STEP T <=? e then
    match fuel with
    | O => None
    | S fuel' =>
        match large_mul v (LARGE_POW5 T) with
        | None => None
        | Some v' => pow_large_loop fuel' v' (e - LARGE_POW5_STEP T)
        end
    end
  else Some (v, e).

Definition small_step := 27.
Definition max_native5 := 7450580596923828125.   (* (5 as Limb).pow(27), a compile-time constant *)

Fixpoint pow_small_loop (fuel : nat) (v : vec) (e : Z) : option (vec * Z) :=
  if small_step <=? e then
    match fuel with
    | O => None
    | S fuel' =>
        match small_mul v max_native5 with
        | None => None
        | Some v' => pow_small_loop fuel' v' (e - small_step)
        end
    end
  else Some (v, e).

(** `pow(x, exp)`: multiply by 5^exp.  A zero LARGE_POW5_STEP would loop forever; the model
    reports that as [Panic PkFuel]. *)
Definition pow5 (v : vec) (e : Z) : outcome (option vec) :=
  '(v1, e1) <-? (if compact c then Ok (Some (v, e))
                 else if LARGE_POW5_STEP T <=? 0 then Panic PkFuel
                 else Ok (pow_large_loop (S (Z.to_nat (e / LARGE_POW5_STEP T))) v e)) ;;
  '(v2, e2) <-? Ok (pow_small_loop (S (Z.to_nat (e1 / small_step))) v1 e1) ;;
  if negb (e2 =? 0) then
    sp <- int_pow_fast_path c T b (as_usize e2) false ;;
    Ok (small_mul v2 sp)
  else Ok (Some v2).

(** `Bigint::pow(base, exp)` *)
Definition bigint_pow (v : vec) (base e : Z) : outcome (option vec) :=
  debug_assert b ((base =? 2) || (base =? 5) || (base =? 10)) ;;;
  v1 <-? (if Z.rem base 5 =? 0 then pow5 v e else Ok (Some v)) ;;
  if Z.rem base 2 =? 0 then shl v1 (as_usize e) else Ok (Some v1).

End WithConfig.
