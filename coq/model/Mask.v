(** * Mask: model of src/mask.rs *)
From Coq Require Import ZArith Bool.
From ML Require Import base.RustSem.
Open Scope Z_scope.

(** `nth_bit(n)`: `debug_assert!(n < 64); 1 << n` on u64 *)
Definition nth_bit (b : build) (n : Z) : outcome Z :=
  debug_assert b (n <? 64) ;;;
  u64_shl b 1 n.

(** `lower_n_mask(n)`: `debug_assert!(n <= 64); if n == 64 { MAX } else { (1 << n) - 1 }` *)
Definition lower_n_mask (b : build) (n : Z) : outcome Z :=
  debug_assert b (n <=? 64) ;;;
  if n =? 64 then Ok u64_max
  else s <- u64_shl b 1 n ;; u64_sub b s 1.

(** `lower_n_halfway(n)`: `debug_assert!(n <= 64); if n == 0 { 0 } else { nth_bit(n - 1) }` *)
Definition lower_n_halfway (b : build) (n : Z) : outcome Z :=
  debug_assert b (n <=? 64) ;;;
  if n =? 0 then Ok 0
  else n1 <- u64_sub b n 1 ;; nth_bit b n1.
