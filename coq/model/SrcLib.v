(** * SrcLib: the library primitives called by the code that tools/rs2coq generates
    (gen/SrcBigint.v, gen/SrcSlow.v, gen/SrcParse.v).

    HAND-WRITTEN AND TRUSTED.  It gives the meaning of things whose Rust definition is not in the
    translated source: control flow of loops ([ctl], [rs_for*], [rs_loop]), `core` slice / iterator
    methods, and the few operations of the unsafe vector back-ends (stackvec.rs / heapvec.rs) that
    model/Vec.v does not already name.  Vectors are model/Vec.v's [vec] (a list of limbs and a
    capacity); slices and iterators are lists.  No axioms, nothing admitted. *)
From Coq Require Import ZArith List Bool.
From ML Require Import base.RustSem model.Fmt model.Vec.
Import ListNotations.
Open Scope Z_scope.
Open Scope rust_scope.

(** ** Control flow of a loop body.
    [Next s]: the body ran to its end (next iteration) with loop state [s];
    [Break s]: `break` with state [s];  [Return r]: the body leaves the loop *and* the enclosing
    construct with payload [r] (a `return e` of the function, or a labelled `break` / `return` that
    an enclosing loop passes on: then [r] is itself a [ctl] of the enclosing loop). *)
Inductive ctl (St R : Type) : Type :=
| Next (s : St)
| Break (s : St)
| Return (r : R).
Arguments Next {St R} s.
Arguments Break {St R} s.
Arguments Return {St R} r.

(** every loop returns [inl state-after-the-loop] or [inr payload-of-Return] *)

(** `for x in l { body }` where the iterator survives the loop (`for x in &mut it`): also returns
    the elements that were not consumed.  Structural: no fuel. *)
Fixpoint rs_for_iter {A St R : Type} (l : list A) (body : St -> A -> outcome (ctl St R)) (s : St)
    : outcome ((St * list A) + R) :=
  match l with
  | [] => Ok (inl (s, []))
  | x :: l' =>
      r <- body s x ;;
      match r with
      | Next s' => rs_for_iter l' body s'
      | Break s' => Ok (inl (s', l'))
      | Return v => Ok (inr v)
      end
  end.

(** `for x in l { body }`, the iterator is consumed by the loop *)
Definition rs_for {A St R : Type} (l : list A) (body : St -> A -> outcome (ctl St R)) (s : St)
    : outcome (St + R) :=
  r <- rs_for_iter l body s ;;
  match r with
  | inl (s', _) => Ok (inl s')
  | inr v => Ok (inr v)
  end.

(** `for xi in x.iter_mut() { body }` (no `break` / `return` inside): the body receives the element
    and returns its new value; the result is the final state and the updated elements *)
Fixpoint rs_for_mut {St : Type} (l : list Z) (body : St -> Z -> outcome (St * Z)) (s : St)
    : outcome (St * list Z) :=
  match l with
  | [] => Ok (s, [])
  | x :: l' =>
      '(s1, x') <- body s x ;;
      '(s2, r) <- rs_for_mut l' body s1 ;;
      Ok (s2, x' :: r)
  end.

(** `while c { .. }` / `while let p = e { .. }` / `loop { .. }`: the condition is part of [body]
    (condition false => [Break]).  [fuel] bounds the number of times the body is entered;
    exhausted => [Panic PkFuel] (to be proved unreachable). *)
Fixpoint rs_loop {St R : Type} (fuel : nat) (body : St -> outcome (ctl St R)) (s : St)
    : outcome (St + R) :=
  match fuel with
  | O => Panic PkFuel
  | S fuel' =>
      r <- body s ;;
      match r with
      | Next s' => rs_loop fuel' body s'
      | Break s' => Ok (inl s')
      | Return v => Ok (inr v)
      end
  end.

(** result of a loop whose body contains no [Return] (its payload type is empty) *)
Definition no_return {St : Type} (x : St + Empty_set) : St :=
  match x with
  | inl s => s
  | inr e => match e with end
  end.

(** ** slices and iterators *)

(** `l.iter().enumerate()` counting from [k] *)
Fixpoint enumerate_from {A : Type} (k : Z) (l : list A) : list (Z * A) :=
  match l with
  | [] => []
  | x :: l' => (k, x) :: enumerate_from (k + 1) l'
  end.

(** `s.get(i)` *)
Definition slice_get_opt (l : list Z) (i : Z) : option Z :=
  if (0 <=? i) && (i <? zlen l) then Some (nth (Z.to_nat i) l 0) else None.

(** `s[i]` *)
Definition slice_get (l : list Z) (i : Z) : outcome Z :=
  match slice_get_opt l i with
  | Some x => Ok x
  | None => Panic PkIndex
  end.

(** `&s[..n]` *)
Definition slice_to (l : list Z) (n : Z) : outcome (list Z) :=
  if (0 <=? n) && (n <=? zlen l) then Ok (firstn (Z.to_nat n) l) else Panic PkIndex.

(** `it.next()` : the item and the advanced iterator *)
Definition iter_next {A : Type} (it : list A) : option A * list A :=
  match it with
  | [] => (None, [])
  | x :: r => (Some x, r)
  end.

(** ** vectors (stackvec.rs / heapvec.rs through `Deref<Target = [Limb]>`) *)

(** `x[i]` *)
Definition vec_get (v : vec) (i : Z) : outcome Z := slice_get (vl v) i.

(** the list [l] with element [i] replaced by [x] *)
Fixpoint list_set (l : list Z) (i : nat) (x : Z) : list Z :=
  match l, i with
  | [], _ => []
  | _ :: r, O => x :: r
  | y :: r, S i' => y :: list_set r i' x
  end.

(** `x[i] = e` *)
Definition vec_set (v : vec) (i x : Z) : outcome vec :=
  if (0 <=? i) && (i <? zlen (vl v)) then Ok (mkVec (list_set (vl v) (Z.to_nat i) x) (vcap v))
  else Panic PkIndex.

(** `unsafe { x.set_len(n) }`: shrinking keeps the first [n] elements; growing would expose
    elements that were never written *)
Definition vec_set_len (v : vec) (n : Z) : outcome vec :=
  if (0 <=? n) && (n <=? zlen (vl v)) then Ok (mkVec (firstn (Z.to_nat n) (vl v)) (vcap v))
  else UB UbSetLen.

(** `shl_limbs(x, n)` (bigint.rs): given, not translated (raw pointer code: `ptr::copy`,
    `ptr::write_bytes`, `set_len`).  Same text as model/Bigint.v's [shl_limbs], which is tied to the
    cell-level execution of the pointer code by model/RawVec.v and its proofs. *)
Definition rs_shl_limbs (b : build) (v : vec) (n : Z) : outcome (option vec) :=
  debug_assert b (negb (n =? 0)) ;;;
  s <- usize_add b n (vlen v) ;;
  if vcap v <? s then Ok None
  else if negb (vlen v =? 0) then Ok (Some (vset_list v (repeat 0 (Z.to_nat n) ++ vl v)))
  else Ok (Some v).
