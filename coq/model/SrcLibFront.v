(** * SrcLibFront: library primitives used only by the generated front-end files gen/SrcFront*.v
    (byte slices of the shipped string front-ends).  HAND-WRITTEN AND TRUSTED, like SrcLib.v; kept in
    a separate file so that SrcLib.v (and everything proved against it) never has to be recompiled
    when the front-end support grows.  No axioms, nothing admitted. *)
From Coq Require Import ZArith List Bool.
From ML Require Import base.RustSem.
Import ListNotations.
Open Scope Z_scope.

(** `&s[n..]` *)
Definition slice_from (l : list Z) (n : Z) : outcome (list Z) :=
  if (0 <=? n) && (n <=? zlen l) then Ok (skipn (Z.to_nat n) l) else Panic PkIndex.

(** `(c as char).to_digit(10)` on a `u8` *)
Definition u8_to_digit10 (c : Z) : option Z :=
  if (48 <=? c) && (c <=? 57) then Some (c - 48) else None.

(** `it.take_while(|x| p x).count()` *)
Fixpoint take_while_count (p : Z -> bool) (l : list Z) : Z :=
  match l with
  | [] => 0
  | x :: r => if p x then 1 + take_while_count p r else 0
  end.
