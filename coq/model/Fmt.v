(** * Fmt: the per-format constants of `impl Float for f32/f64` (num.rs) and the crate
    configuration.  The *values* live in the generated file gen/Consts.v. *)
From Coq Require Import ZArith List Bool.
From ML Require Import base.RustSem.
Import ListNotations.
Open Scope Z_scope.

Record format := mkFormat {
  fbits : Z;                       (* width of the raw bit pattern: 32 / 64 (the type, not a constant) *)
  MAX_DIGITS : Z;
  SIGN_MASK : Z;
  EXPONENT_MASK : Z;
  HIDDEN_BIT_MASK : Z;
  MANTISSA_MASK : Z;
  MANTISSA_SIZE : Z;
  EXPONENT_BIAS : Z;
  DENORMAL_EXPONENT : Z;
  MAX_EXPONENT : Z;
  CARRY_MASK : Z;
  INVALID_FP : Z;
  MAX_MANTISSA_FAST_PATH : Z;
  INFINITE_POWER : Z;
  MIN_EXPONENT_ROUND_TO_EVEN : Z;
  MAX_EXPONENT_ROUND_TO_EVEN : Z;
  MINIMUM_EXPONENT : Z;
  SMALLEST_POWER_OF_TEN : Z;
  LARGEST_POWER_OF_TEN : Z;
  MIN_EXPONENT_FAST_PATH : Z;
  MAX_EXPONENT_FAST_PATH : Z;
  MAX_EXPONENT_DISGUISED_FAST_PATH : Z
}.

(** IEEE parameters in Flocq's convention, derived from the crate's constants:
    [prec] = MANTISSA_SIZE + 1, [emax] = the exponent of the first power of two that overflows. *)
Definition prec (f : format) : Z := MANTISSA_SIZE f + 1.
Definition ewidth (f : format) : Z := fbits f - 1 - MANTISSA_SIZE f.
Definition emax (f : format) : Z := 2 ^ (ewidth f - 1).
Definition femin (f : format) : Z := 3 - emax f - prec f.

(** Tables the crate reads (non-compact builds) *)
Record tables := mkTables {
  SMALLEST_POWER_OF_FIVE : Z;
  LARGEST_POWER_OF_FIVE : Z;
  POWER_OF_FIVE_128 : list (Z * Z);     (* in source order: (first, second) component *)
  SMALL_INT_POW5 : list Z;
  SMALL_INT_POW10 : list Z;
  SMALL_F32_POW10 : list Z;             (* bit patterns *)
  SMALL_F64_POW10 : list Z;
  LARGE_POW5 : list Z;
  LARGE_POW5_STEP : Z
}.

(** Tables of the compact build (Bellerophon) *)
Record btables := mkBTables {
  BELL_SMALL : list Z;
  BELL_LARGE : list Z;
  BELL_SMALL_INT : list Z;
  BELL_STEP : Z;
  BELL_BIAS : Z;
  BELL_LOG2 : Z;
  BELL_LOG2_SHIFT : Z
}.

(** A crate configuration.  [pow_f32]/[pow_f64] are the on-demand powers `powf(10, k)` /
    `powd(10, k)` of a compact build as dumped from the compiled crate (bit patterns, index k);
    they are only consulted when [compact = true]. *)
Record config := mkConfig {
  compact : bool;
  alloc : bool;
  pow_f32 : list Z;
  pow_f64 : list Z
}.

Record limits := mkLimits { BIGINT_BITS : Z; BIGINT_LIMBS : Z; LIMB_BITS : Z }.
