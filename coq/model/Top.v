(** * Top: model of `parse_float` and `moderate_path` (src/parse.rs:146-182) *)
From Coq Require Import ZArith Bool List.
From ML Require Import base.RustSem model.Fmt model.Num model.Number model.Parse model.Lemire
  model.Bellerophon model.Slow.
Open Scope Z_scope.

Section WithConfig.
Variable c : config.
Variable T : tables.
Variable BT : btables.
Variable L : limits.
Variable f : format.
Variable b : build.

Definition moderate_path (n : number) : outcome extfloat :=
  if compact c then bellerophon BT f b n else lemire T f b n.

Definition parse_float (i fr : list Z) (e : Z) : outcome Z :=
  num <- parse_number b i fr e ;;
  r <- try_fast_path c T f b num ;;
  match r with
  | Some v => Ok v
  | None =>
      fp <- moderate_path num ;;
      fp' <- (if exp fp <? 0 then
                e' <- i32_sub b (exp fp) (INVALID_FP f) ;;
                slow c T L f b num (mkExt (mant fp) e') i fr
              else Ok fp) ;;
      extended_to_float f b fp'
  end.

End WithConfig.
