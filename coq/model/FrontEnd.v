(** * FrontEnd: model of the shipped string front-end (examples/simple.rs and its copies).
    Variant [simple] = examples/simple.rs and etc/correctness/test-parse-golang/main.rs;
    variant [fuzz] = fuzz/fuzz_targets/parse.rs and tests/integration_tests.rs (special
    literals and the empty-input rule). *)
From Coq Require Import ZArith Bool List.
From ML Require Import base.RustSem model.Fmt model.Num model.FloatOps model.Number model.Top.
Import ListNotations.
Open Scope Z_scope.

Definition parse_sign (s : list Z) : bool * list Z :=
  match s with
  | 43 :: r => (true, r)
  | 45 :: r => (false, r)
  | _ => (true, s)
  end.

(** `(c as char).to_digit(10).is_some()` *)
Definition is_digit (c : Z) : bool := (48 <=? c) && (c <=? 57).

Fixpoint consume_digits (s : list Z) : list Z * list Z :=
  match s with
  | c :: r => if is_digit c then let '(d, rest) := consume_digits r in (c :: d, rest) else ([], s)
  | [] => ([], [])
  end.

Fixpoint ltrim_zero (s : list Z) : list Z :=
  match s with
  | 48 :: r => ltrim_zero r
  | _ => s
  end.
Definition rtrim_zero (s : list Z) : list Z := rev (ltrim_zero (rev s)).

(** `parse_exponent`: checked accumulation saturating to i32::MAX / i32::MIN *)
Fixpoint pe_loop (pos : bool) (l : list Z) (v : Z) : Z :=
  match l with
  | [] => v
  | ch :: r =>
      let d := ch - 48 in
      match (match i32_checked_mul v 10 with
             | Some t => if pos then i32_checked_add t d else i32_checked_sub t d
             | None => None
             end) with
      | Some v' => pe_loop pos r v'
      | None => if pos then i32_max else i32_min
      end
  end.
Definition parse_exponent (digits : list Z) (pos : bool) : Z := pe_loop pos digits 0.

(** `case_insensitive_starts_with(x, y)` with the xor trick *)
Fixpoint ci_starts_with (x y : list Z) : bool :=
  match y with
  | [] => true
  | yi :: y' =>
      match x with
      | [] => false
      | xi :: x' =>
          let xo := Z.lxor xi yi in
          if negb (xo =? 0) && negb (xo =? 32) then false else ci_starts_with x' y'
      end
  end.

Definition lit_nan := [78; 97; 78].                              (* "NaN" *)
Definition lit_infinity := [73; 110; 102; 105; 110; 105; 116; 121].  (* "Infinity" *)
Definition lit_inf := [105; 110; 102].                           (* "inf" *)

Section WithConfig.
Variable c : config.
Variable T : tables.
Variable BT : btables.
Variable L : limits.
Variable f : format.
Variable b : build.

Definition fe_core (special : bool) (s : list Z) : outcome (Z * list Z) :=
  let '(pos, s1) := parse_sign s in
  let sgn (v : Z) := if pos then v else f_neg f v in
  if special && ci_starts_with s1 lit_nan then
    h <- u64_shr b (HIDDEN_BIT_MASK f) 1 ;;
    v <- from_bits f b (Z.lor (EXPONENT_MASK f) h) ;;
    Ok (sgn v, skipn 3 s1)
  else if special && ci_starts_with s1 lit_infinity then
    v <- from_bits f b (EXPONENT_MASK f) ;; Ok (sgn v, skipn 8 s1)
  else if special && ci_starts_with s1 lit_inf then
    v <- from_bits f b (EXPONENT_MASK f) ;; Ok (sgn v, skipn 3 s1)
  else
    let '(int, s2) := consume_digits s1 in
    let '(frac, s3) := match s2 with
                       | 46 :: r => consume_digits r
                       | _ => ([], s2)
                       end in
    let '(e, s4) := match s3 with
                    | 101 :: r | 69 :: r =>
                        let '(epos, r1) := parse_sign r in
                        let '(ed, r2) := consume_digits r1 in
                        (parse_exponent ed epos, r2)
                    | _ => (0, s3)
                    end in
    if special && (zlen s4 =? zlen s) then Ok (f_from_u64 f 0, s4)
    else
      v <- parse_float c T BT L f b (ltrim_zero int) (rtrim_zero frac) e ;;
      Ok (sgn v, s4).

Definition fe_simple := fe_core false.
Definition fe_fuzz := fe_core true.

End WithConfig.
