(** * Lemire: model of src/lemire.rs (Eisel-Lemire, default builds).
    NB: in `compute_product_approx` the source binds `let (lo5, hi5) = POWER_OF_FIVE_128[index]`;
    the *first* component is the most significant word of the 128-bit entry.  The model follows
    the data flow, not the names: [t_first] is multiplied first. *)
From Coq Require Import ZArith Bool List.
From ML Require Import base.RustSem model.Fmt model.Num model.Number.
Open Scope Z_scope.

Definition full_multiplication (a b : Z) : Z * Z := ((a * b) mod 2 ^ 64, (a * b) / 2 ^ 64).

Section WithFormat.
Variable T : tables.
Variable f : format.
Variable b : build.

(** `(q.wrapping_mul(152_170 + 65536) >> 16) + 63` *)
Definition power (q : Z) : outcome Z :=
  i32_add b (i32_wrapping_mul q 217706 / 2 ^ 16) 63.

Definition compute_product_approx (q w precision : Z) : outcome (Z * Z) :=
  debug_assert b (SMALLEST_POWER_OF_FIVE T <=? q) ;;;
  debug_assert b (q <=? LARGEST_POWER_OF_FIVE T) ;;;
  debug_assert b (precision <=? 64) ;;;
  mask <- (if precision <? 64 then u64_shr b u64_max precision else Ok u64_max) ;;
  idx <- i32_sub b q (SMALLEST_POWER_OF_FIVE T) ;;
  '(t_first, t_second) <- index_checked2 (POWER_OF_FIVE_128 T) (as_usize idx) ;;
  let '(first_lo, first_hi) := full_multiplication w t_first in
  if Z.land first_hi mask =? mask then
    let second_hi := snd (full_multiplication w t_second) in
    let first_lo' := u64_wrapping_add first_lo second_hi in
    first_hi' <- (if first_lo' <? second_hi then u64_add b first_hi 1 else Ok first_hi) ;;
    Ok (first_lo', first_hi')
  else Ok (first_lo, first_hi).

Definition fp_zero := mkExt 0 0.
Definition fp_inf := mkExt 0 (INFINITE_POWER f).

Definition compute_error_scaled (q w lz : Z) : outcome extfloat :=
  let hilz := Z.lxor (w / 2 ^ 63) 1 in
  w' <- u64_shl b w hilz ;;
  p <- power q ;;
  t1 <- i32_add b p (EXPONENT_BIAS f) ;;
  t2 <- i32_sub b t1 hilz ;;
  t3 <- i32_sub b t2 lz ;;
  power2 <- i32_sub b t3 62 ;;
  e <- i32_add b power2 (INVALID_FP f) ;;
  Ok (mkExt w' e).

Definition compute_float (q w : Z) : outcome extfloat :=
  if (w =? 0) || (q <? SMALLEST_POWER_OF_TEN f) then Ok fp_zero
  else if LARGEST_POWER_OF_TEN f <? q then Ok fp_inf
  else
    let lz := lz64 w in
    w' <- u64_shl b w lz ;;
    '(lo, hi) <- compute_product_approx q w' (MANTISSA_SIZE f + 3) ;;
    if (lo =? u64_max) && negb ((-27 <=? q) && (q <=? 55)) then
      compute_error_scaled q hi lz
    else
      let upperbit := hi / 2 ^ 63 in
      let sh := upperbit + 64 - MANTISSA_SIZE f - 3 in
      mantissa <- u64_shr b hi sh ;;
      p <- power q ;;
      t1 <- i32_add b p upperbit ;;
      t2 <- i32_sub b t1 lz ;;
      power2 <- i32_sub b t2 (MINIMUM_EXPONENT f) ;;
      if power2 <=? 0 then
        np <- i32_neg b power2 ;;
        np1 <- i32_add b np 1 ;;
        if 64 <=? np1 then Ok fp_zero
        else
          m1 <- u64_shr b mantissa np1 ;;
          m2 <- u64_add b m1 (Z.land m1 1) ;;
          let m3 := m2 / 2 in
          Ok (mkExt m3 (if 2 ^ MANTISSA_SIZE f <=? m3 then 1 else 0))
      else
        back <- u64_shl b mantissa sh ;;
        let mantissa1 :=
          if (lo <=? 1) && (MIN_EXPONENT_ROUND_TO_EVEN f <=? q) && (q <=? MAX_EXPONENT_ROUND_TO_EVEN f)
             && (Z.land mantissa 3 =? 1) && (back =? hi)
          then Z.land mantissa (u64_not 1) else mantissa in
        m2 <- u64_add b mantissa1 (Z.land mantissa1 1) ;;
        let m3 := m2 / 2 in
        '(m4, power2') <- (if 2 * 2 ^ MANTISSA_SIZE f <=? m3
                           then p2 <- i32_add b power2 1 ;; Ok (2 ^ MANTISSA_SIZE f, p2)
                           else Ok (m3, power2)) ;;
        let m5 := Z.land m4 (u64_not (2 ^ MANTISSA_SIZE f)) in
        if INFINITE_POWER f <=? power2' then Ok fp_inf
        else Ok (mkExt m5 power2').

Definition compute_error (q w : Z) : outcome extfloat :=
  let lz := lz64 w in
  w' <- u64_shl b w lz ;;
  '(_, hi) <- compute_product_approx q w' (MANTISSA_SIZE f + 3) ;;
  compute_error_scaled q hi lz.

Definition ext_eqb (x y : extfloat) : bool := (mant x =? mant y) && (exp x =? exp y).

Definition lemire (n : number) : outcome extfloat :=
  fp <- compute_float (nexp n) (nmant n) ;;
  if many n && (0 <=? exp fp) then
    w1 <- u64_add b (nmant n) 1 ;;
    fp2 <- compute_float (nexp n) w1 ;;
    if negb (ext_eqb fp fp2) then compute_error (nexp n) (nmant n) else Ok fp
  else Ok fp.

End WithFormat.
