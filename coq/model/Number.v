(** * Number: model of src/number.rs and of the power look-ups in src/num.rs *)
From Coq Require Import ZArith Bool List.
From ML Require Import base.RustSem model.Fmt model.FloatOps.
Open Scope Z_scope.

Record number := mkNumber { nexp : Z; nmant : Z; many : bool }.

Section WithConfig.
Variable c : config.
Variable T : tables.
Variable f : format.
Variable b : build.

Definition is_fast_path (n : number) : bool :=
  (MIN_EXPONENT_FAST_PATH f <=? nexp n) &&
  (nexp n <=? MAX_EXPONENT_DISGUISED_FAST_PATH f) &&
  (nmant n <=? MAX_MANTISSA_FAST_PATH f) &&
  negb (many n).

(** `F::pow_fast_path(exponent)`: unchecked table read (non-compact) or `powf/powd(10, k)`
    (compact; the dumped results of the compiled crate) *)
Definition pow_fast_path (k : Z) : outcome Z :=
  if compact c then
    let l := if fbits f =? 32 then pow_f32 c else pow_f64 c in
    if (0 <=? k) && (k <? zlen l) then Ok (nth (Z.to_nat k) l 0) else Panic PkNoDump
  else
    index_unchecked (if fbits f =? 32 then SMALL_F32_POW10 T else SMALL_F64_POW10 T) k.

(** `int_pow_fast_path(exponent, radix)`: unchecked table read (non-compact) or `u64::pow`
    (compact) *)
Definition int_pow_fast_path (k : Z) (ten : bool) : outcome Z :=
  if compact c then uop b 64 ((if ten then 10 else 5) ^ (as_u32 k))
  else index_unchecked (if ten then SMALL_INT_POW10 T else SMALL_INT_POW5 T) k.

Definition try_fast_path (n : number) : outcome (option Z) :=
  if is_fast_path n then
    let max_exponent := MAX_EXPONENT_FAST_PATH f in
    if nexp n <=? max_exponent then
      let value := f_from_u64 f (nmant n) in
      if nexp n <? 0 then
        ne <- i32_neg b (nexp n) ;;
        p <- pow_fast_path (as_usize ne) ;;
        Ok (Some (f_div f value p))
      else
        p <- pow_fast_path (as_usize (nexp n)) ;;
        Ok (Some (f_mul f value p))
    else
      shift <- i32_sub b (nexp n) max_exponent ;;
      int_power <- int_pow_fast_path (as_usize shift) true ;;
      match u64_checked_mul (nmant n) int_power with
      | None => Ok None
      | Some m =>
          if MAX_MANTISSA_FAST_PATH f <? m then Ok None
          else
            p <- pow_fast_path (as_usize max_exponent) ;;
            Ok (Some (f_mul f (f_from_u64 f m) p))
      end
  else Ok None.

End WithConfig.
