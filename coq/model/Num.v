(** * Num: model of the `Float` trait helpers (src/num.rs), `ExtendedFloat` and
    `extended_to_float` (src/extended_float.rs).  A float value is its raw bit pattern. *)
From Coq Require Import ZArith Bool List.
From ML Require Import base.RustSem model.Fmt.
Open Scope Z_scope.

(** `ExtendedFloat { mant: u64, exp: i32 }` *)
Record extfloat := mkExt { mant : Z; exp : Z }.

Section WithFormat.
Variable f : format.

(** `to_bits(from_bits(u))` is the identity on patterns of the right width; f32's `from_bits`
    asserts `u <= 0xffff_ffff` in debug builds and truncates (`u as u32`). *)
Definition from_bits (b : build) (u : Z) : outcome Z :=
  if fbits f =? 32 then debug_assert b (u <=? 4294967295) ;;; Ok (as_u32 u)
  else Ok u.

Definition is_denormal (x : Z) : bool := Z.land x (EXPONENT_MASK f) =? 0.

(** `exponent()` *)
Definition float_exponent (b : build) (x : Z) : outcome Z :=
  if is_denormal x then Ok (DENORMAL_EXPONENT f)
  else
    sh <- u64_shr b (Z.land x (EXPONENT_MASK f)) (MANTISSA_SIZE f) ;;
    i32_sub b (as_i32 sh) (EXPONENT_BIAS f).

(** `mantissa()` *)
Definition float_mantissa (b : build) (x : Z) : outcome Z :=
  let s := Z.land x (MANTISSA_MASK f) in
  if negb (is_denormal x) then u64_add b s (HIDDEN_BIT_MASK f) else Ok s.

(** `extended_to_float`: `word = x.mant | ((x.exp as u64) << MANTISSA_SIZE); F::from_bits(word)` *)
Definition extended_to_float (b : build) (x : extfloat) : outcome Z :=
  sh <- u64_shl b (as_u64 (exp x)) (MANTISSA_SIZE f) ;;
  from_bits b (Z.lor (mant x) sh).

End WithFormat.
