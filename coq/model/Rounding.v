(** * Rounding: model of src/rounding.rs *)
From Coq Require Import ZArith Bool.
From ML Require Import base.RustSem model.Fmt model.Mask model.Num.
Open Scope Z_scope.

(** `round_nearest_tie_even(fp, shift, cb)`; [cb is_odd is_halfway is_above] *)
Definition round_nearest_tie_even (b : build) (fp : extfloat) (shift : Z)
    (cb : bool -> bool -> bool -> bool) : outcome extfloat :=
  debug_assert b (shift <=? 64) ;;;
  mask <- lower_n_mask b (as_u64 shift) ;;
  halfway <- lower_n_halfway b (as_u64 shift) ;;
  let truncated_bits := Z.land (mant fp) mask in
  let is_above := halfway <? truncated_bits in
  let is_halfway := truncated_bits =? halfway in
  m <- (if shift =? 64 then Ok 0 else u64_shr b (mant fp) shift) ;;
  e <- i32_add b (exp fp) shift ;;
  let is_odd := Z.land m 1 =? 1 in
  m' <- u64_add b m (if cb is_odd is_halfway is_above then 1 else 0) ;;
  Ok (mkExt m' e).

(** `round_down(fp, shift)` *)
Definition round_down (b : build) (fp : extfloat) (shift : Z) : outcome extfloat :=
  m <- (if shift =? 64 then Ok 0 else u64_shr b (mant fp) shift) ;;
  e <- i32_add b (exp fp) shift ;;
  Ok (mkExt m e).

(** `round::<F, _>(fp, cb)`; [cb fp shift] is the shifting callback *)
Definition round (f : format) (b : build) (fp : extfloat)
    (cb : extfloat -> Z -> outcome extfloat) : outcome extfloat :=
  (* `64 - F::MANTISSA_SIZE - 1` is evaluated at compile time *)
  let mantissa_shift := 64 - MANTISSA_SIZE f - 1 in
  nexp <- i32_neg b (exp fp) ;;
  if mantissa_shift <=? nexp then
    shift <- i32_add b nexp 1 ;;
    debug_assert b (shift <=? 65) ;;;
    fp1 <- cb fp (Z.min shift 64) ;;
    Ok (mkExt (mant fp1) (if HIDDEN_BIT_MASK f <=? mant fp1 then 1 else 0))
  else
    fp1 <- cb fp mantissa_shift ;;
    fp2 <- (if Z.land (mant fp1) (CARRY_MASK f) =? CARRY_MASK f then
              m <- u64_shr b (mant fp1) 1 ;;
              e <- i32_add b (exp fp1) 1 ;;
              Ok (mkExt m e)
            else Ok fp1) ;;
    if INFINITE_POWER f <=? exp fp2 then Ok (mkExt 0 (INFINITE_POWER f))
    else Ok (mkExt (Z.land (mant fp2) (MANTISSA_MASK f)) (exp fp2)).

Definition cb_nearest_even (is_odd is_halfway is_above : bool) : bool :=
  is_above || (is_odd && is_halfway).
