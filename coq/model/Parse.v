(** * Parse: model of `parse_number_fast`, `parse_number`, `into_i32` (src/parse.rs).
    Digit iterators are lists of byte values; each pass receives the remaining suffix. *)
From Coq Require Import ZArith Bool List.
From ML Require Import base.RustSem model.Fmt model.Number.
Import ListNotations.
Open Scope Z_scope.

Section WithBuild.
Variable b : build.

(** one `for &c in iter { count += 1; digit = c - b'0'; m = m.wrapping_mul(10).wrapping_add(digit) }` *)
Fixpoint pnf_loop (l : list Z) (m cnt : Z) : outcome (Z * Z) :=
  match l with
  | [] => Ok (m, cnt)
  | c :: r =>
      d <- u8_sub b c 48 ;;
      pnf_loop r (u64_wrapping_add (u64_wrapping_mul m 10) d) (cnt + 1)
  end.

Definition parse_number_fast (i fr : list Z) (e : Z) : outcome (option number) :=
  '(m1, ic) <- pnf_loop i 0 0 ;;
  '(m2, fc) <- pnf_loop fr m1 0 ;;
  if ic + fc <=? 19 then
    Ok (Some (mkNumber (i32_saturating_sub e (as_i32 fc)) m2 false))
  else Ok None.

Definition into_i32 (v : Z) : Z := if i32_max <? v then i32_max else as_i32 v.

(** `mantissa * 10 + digit` with the checked operators *)
Definition push_digit (m c : Z) : outcome Z :=
  d <- u8_sub b c 48 ;;
  t <- u64_mul b m 10 ;;
  u64_add b t d.

(** the `while let Some(&c) = integer.next()` loop: [inl (m, count)] when the integer digits are
    exhausted, [inr (m, n)] when the 20th digit was met with [n] = `1 + integer.count()` *)
Fixpoint pn_int (l : list Z) (m count : Z) : outcome ((Z * Z) + (Z * Z)) :=
  match l with
  | [] => Ok (inl (m, count))
  | c :: r =>
      let count' := count + 1 in
      if count' =? 20 then Ok (inr (m, 1 + zlen r))
      else m' <- push_digit m c ;; pn_int r m' count'
  end.

(** skipping leading fraction zeros (only when no integer digit was seen):
    returns (mantissa, count, fraction_count, remaining fraction) *)
Fixpoint pn_skip (l : list Z) (m fc : Z) : outcome (Z * Z * Z * list Z) :=
  match l with
  | [] => Ok (m, 0, fc, [])
  | c :: r =>
      if negb (c =? 48) then
        m' <- push_digit m c ;; Ok (m', 1, fc + 1, r)
      else pn_skip r m (fc + 1)
  end.

(** the final `for c in fraction` loop: [inl (m, fraction_count)] at the end of input,
    [inr (m, fraction_count)] when the 20th digit was met *)
Fixpoint pn_frac (l : list Z) (m count fc : Z) : outcome ((Z * Z) + (Z * Z)) :=
  match l with
  | [] => Ok (inl (m, fc))
  | c :: r =>
      let fc' := fc + 1 in
      let count' := count + 1 in
      if count' =? 20 then Ok (inr (m, fc'))
      else m' <- push_digit m c ;; pn_frac r m' count' fc'
  end.

Definition parse_number (i fr : list Z) (e : Z) : outcome number :=
  fast <- parse_number_fast i fr e ;;
  match fast with
  | Some n => Ok n
  | None =>
      ri <- pn_int i 0 0 ;;
      match ri with
      | inr (m, n) => Ok (mkNumber (i32_saturating_add e (into_i32 n)) m true)
      | inl (m, count) =>
          '(m1, count1, fc1, fr1) <-
             (if count =? 0 then pn_skip fr m 0 else Ok (m, count, 0, fr)) ;;
          rf <- pn_frac fr1 m1 count1 fc1 ;;
          match rf with
          | inr (m2, fc) =>
              t <- i32_sub b (as_i32 fc) 1 ;;
              Ok (mkNumber (i32_saturating_sub e t) m2 true)
          | inl (m2, fc) => Ok (mkNumber (i32_saturating_sub e (as_i32 fc)) m2 false)
          end
      end
  end.

End WithBuild.
