(** * Vec: list-level model of the two vector back-ends (src/stackvec.rs, src/heapvec.rs) as the
    big-integer code sees them: a list of limbs (little-endian) and a capacity.
    Stack back-end: capacity is the constant BIGINT_LIMBS and `try_*` fail beyond it.
    Heap back-end: `try_*` never fail; the capacity is `Vec`'s (it is observed by `shl_limbs`
    only) and follows std's amortised growth (modelled std behaviour, see DESIGN.md 8). *)
From Coq Require Import ZArith Bool List.
From ML Require Import base.RustSem model.Fmt.
Import ListNotations.
Open Scope Z_scope.

Record vec := mkVec { vl : list Z; vcap : Z }.

Section WithConfig.
Variable heap : bool.       (* feature `alloc` *)
Variable L : limits.

Definition vlen (v : vec) : Z := zlen (vl v).

Definition grow (cap req : Z) : Z := Z.max (Z.max (2 * cap) req) 4.

Definition vnew : vec := mkVec [] (BIGINT_LIMBS L).

Definition try_push (v : vec) (x : Z) : option vec :=
  if heap then
    Some (mkVec (vl v ++ [x]) (if vlen v =? vcap v then grow (vcap v) (vlen v + 1) else vcap v))
  else if vlen v <? vcap v then Some (mkVec (vl v ++ [x]) (vcap v)) else None.

Definition vpop (v : vec) : option Z * vec :=
  match rev (vl v) with
  | [] => (None, v)
  | x :: r => (Some x, mkVec (rev r) (vcap v))
  end.

Definition try_extend (v : vec) (s : list Z) : option vec :=
  if heap then
    Some (mkVec (vl v ++ s)
            (if vcap v - vlen v <? zlen s then grow (vcap v) (vlen v + zlen s) else vcap v))
  else if vlen v + zlen s <=? vcap v then Some (mkVec (vl v ++ s) (vcap v)) else None.

Definition try_from (s : list Z) : option vec := try_extend vnew s.

Definition resize_list (l : list Z) (len : Z) (x : Z) : list Z :=
  if zlen l <? len then l ++ repeat x (Z.to_nat (len - zlen l)) else firstn (Z.to_nat len) l.

Definition try_resize (v : vec) (len x : Z) : option vec :=
  if heap then
    Some (mkVec (resize_list (vl v) len x)
            (if (vlen v <? len) && (vcap v - vlen v <? len - vlen v) then grow (vcap v) len else vcap v))
  else if vcap v <? len then None else Some (mkVec (resize_list (vl v) len x) (vcap v)).

Definition vclone (v : vec) : vec := if heap then mkVec (vl v) (vlen v) else v.

Definition vset_list (v : vec) (l : list Z) : vec := mkVec l (vcap v).

End WithConfig.
