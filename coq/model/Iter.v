(** * Iter: iterator-level model of the code that consumes the two generic digit iterators
    (`parse_number_fast`, `parse_number`, `parse_float` in src/parse.rs; `slow`, `parse_mantissa`
    and `round_up_nonzero!` in src/slow.rs).

    A Rust iterator `I: Iterator<Item = &u8> + Clone` is modelled by an abstract *cursor*: a state
    type [St] and a step function [next : St -> option Z * St] (`fn next(&mut self) -> Option<&u8>`
    returns the item and leaves the iterator in the new state).  Nothing is assumed about [next]:
    in particular it may return [Some _] again after it has returned [None] (Rust's `Iterator`
    contract allows that; only `FusedIterator` forbids it).

    - `it.clone()`                = using the same state value twice;
    - `it.next()`                 = one application of [next], *every* call is explicit, including the
                                    calls made after a `None` has been returned;
    - `for x in it { body }`      = `loop { match it.next() { Some(x) => body, None => break } }`:
                                    the loop stops at the first `None` (and `it` is dropped if it was
                                    taken by value; if it was `&mut it` the state after the `None`
                                    stays visible to the code that follows);
    - `it.count()`                = the default `Iterator::count`: `next()` until the first `None`.

    Loops over a cursor have no structural measure, so every loop takes a [fuel : nat] and returns
    [Panic PkFuel] when it runs out (one unit per `next()` call of that loop; every loop gets the
    whole fuel).  Everything that does not touch the iterators (digit arithmetic, `pm_settle`,
    the flushes, fast path, moderate path, digit comparison, rounding) is shared with the list model.

    The list model is in model/Parse.v, model/Slow.v, model/Top.v; the equivalence theorems are in
    proofs/IterFacts.v. *)
From Coq Require Import ZArith Bool List.
From ML Require Import base.RustSem model.Fmt model.Num model.Number model.Parse model.Lemire
  model.Bellerophon model.Vec model.Bigint model.Slow model.Top.
Import ListNotations.
Open Scope Z_scope.

(** a cursor packaged as a record (used for examples and for statements that quantify over
    iterators of different types) *)
Record cursor := mkCursor { cstate : Type; cnext : cstate -> option Z * cstate }.

(** ** Loops over one cursor *)
Section OneCursor.
Variable St : Type.
Variable next : St -> option Z * St.
Variable c : config.
Variable b : build.

(** parse.rs:33-37 / 38-42: `for &c in it { n += 1; digit = c - b'0'; m = m.wrapping_mul(10).wrapping_add(digit) }`
    ([it] by value) *)
Fixpoint it_pnf_loop (fuel : nat) (s : St) (m cnt : Z) : outcome (Z * Z) :=
  match fuel with
  | O => Panic PkFuel
  | S k =>
      match next s with
      | (None, _) => Ok (m, cnt)
      | (Some ch, s') =>
          d <- u8_sub b ch 48 ;;
          it_pnf_loop k s' (u64_wrapping_add (u64_wrapping_mul m 10) d) (cnt + 1)
      end
  end.

(** `it.count()` (default method: `next()` until `None`), consumes [it] *)
Fixpoint it_count (fuel : nat) (s : St) (acc : Z) : outcome Z :=
  match fuel with
  | O => Panic PkFuel
  | S k =>
      match next s with
      | (None, _) => Ok acc
      | (Some _, s') => it_count k s' (acc + 1)
      end
  end.

(** parse.rs:71-82: `while let Some(&c) = integer.next() { count += 1; if count == 20 { .. 1 + integer.count() ..; return }
    else { push } }`.  After the `None` the iterator is never used again by `parse_number`. *)
Fixpoint it_pn_int (fuel : nat) (s : St) (m count : Z) : outcome ((Z * Z) + (Z * Z)) :=
  match fuel with
  | O => Panic PkFuel
  | S k =>
      match next s with
      | (None, _) => Ok (inl (m, count))
      | (Some ch, s') =>
          let count' := count + 1 in
          if count' =? 20 then n <- it_count fuel s' 0 ;; Ok (inr (m, 1 + n))
          else m' <- push_digit b m ch ;; it_pn_int k s' m' count'
      end
  end.

(** parse.rs:88-96: `for &c in &mut fraction { fraction_count += 1; if c != b'0' { ..; break } }`.
    Returns (mantissa, count, fraction_count, STATE IN WHICH THE LOOP LEFT THE ITERATOR): after a
    `break` that is the state after the non-zero digit; when the loop ended because `next()`
    returned `None` it is the state AFTER THAT `None`. *)
Fixpoint it_pn_skip (fuel : nat) (s : St) (m fc : Z) : outcome (Z * Z * Z * St) :=
  match fuel with
  | O => Panic PkFuel
  | S k =>
      match next s with
      | (None, s') => Ok (m, 0, fc, s')
      | (Some ch, s') =>
          if negb (ch =? 48) then m' <- push_digit b m ch ;; Ok (m', 1, fc + 1, s')
          else it_pn_skip k s' m (fc + 1)
      end
  end.

(** parse.rs:98-113: `for c in fraction { fraction_count += 1; count += 1; if count == 20 { ..; return } else { push } }` *)
Fixpoint it_pn_frac (fuel : nat) (s : St) (m count fc : Z) : outcome ((Z * Z) + (Z * Z)) :=
  match fuel with
  | O => Panic PkFuel
  | S k =>
      match next s with
      | (None, _) => Ok (inl (m, fc))
      | (Some ch, s') =>
          let fc' := fc + 1 in
          let count' := count + 1 in
          if count' =? 20 then Ok (inr (m, fc'))
          else m' <- push_digit b m ch ;; it_pn_frac k s' m' count' fc'
      end
  end.

(** slow.rs:250-259 `round_up_nonzero!`: `for &digit in it { if digit != b'0' { round_up_truncated!; return } }` *)
Fixpoint it_pm_round_up (fuel : nat) (s : St) (st : pm_state) : outcome (pm_state * bool) :=
  match fuel with
  | O => Panic PkFuel
  | S k =>
      match next s with
      | (None, _) => Ok (st, false)
      | (Some d, s') =>
          if negb (d =? 48) then
            r1 <- pm_mul_add c (pm_result st) 10 1 ;;
            Ok (mkPm (pm_counter st) (pm_count st + 1) (pm_value st) r1, true)
          else it_pm_round_up k s' st
      end
  end.

(** slow.rs:321-326: `for &c in &mut fraction { if c != b'0' { add_digit!; break } }`; returns the
    state in which the iterator is left (after the `None` if the loop was not broken) *)
Fixpoint it_pm_skip (fuel : nat) (s : St) (st : pm_state) : outcome (pm_state * St) :=
  match fuel with
  | O => Panic PkFuel
  | S k =>
      match next s with
      | (None, s') => Ok (st, s')
      | (Some ch, s') =>
          if negb (ch =? 48) then st' <- pm_add_digit b ch st ;; Ok (st', s')
          else it_pm_skip k s' st
      end
  end.

End OneCursor.

Arguments it_pnf_loop {St} next b fuel s m cnt.
Arguments it_count {St} next fuel s acc.
Arguments it_pn_int {St} next b fuel s m count.
Arguments it_pn_skip {St} next b fuel s m fc.
Arguments it_pn_frac {St} next b fuel s m count fc.
Arguments it_pm_round_up {St} next c fuel s st.
Arguments it_pm_skip {St} next b fuel s st.

(** ** The functions generic in two iterator types *)
Section TwoCursors.
Variable St1 St2 : Type.
Variable next1 : St1 -> option Z * St1.      (* `Iter1`, the integer digits *)
Variable next2 : St2 -> option Z * St2.      (* `Iter2`, the fraction digits *)
Variable c : config.
Variable T : tables.
Variable BT : btables.
Variable L : limits.
Variable f : format.
Variable b : build.
Variable fuel : nat.

(** parse.rs:21-51; called on clones, i.e. on copies of the caller's states *)
Definition it_parse_number_fast (s1 : St1) (s2 : St2) (e : Z) : outcome (option number) :=
  '(m1, ic) <- it_pnf_loop next1 b fuel s1 0 0 ;;
  '(m2, fc) <- it_pnf_loop next2 b fuel s2 m1 0 ;;
  if ic + fc <=? 19 then
    Ok (Some (mkNumber (i32_saturating_sub e (as_i32 fc)) m2 false))
  else Ok None.

(** parse.rs:67-118: what `parse_number` does after the fast pass returned `None` *)
Definition it_parse_number_rest (s1 : St1) (s2 : St2) (e : Z) : outcome number :=
  ri <- it_pn_int next1 b fuel s1 0 0 ;;
  match ri with
  | inr (m, n) => Ok (mkNumber (i32_saturating_add e (into_i32 n)) m true)
  | inl (m, count) =>
      '(m1, count1, fc1, s2') <-
         (if count =? 0 then it_pn_skip next2 b fuel s2 m 0 else Ok (m, count, 0, s2)) ;;
      (* `for c in fraction`: first call of `next()` on whatever state the skip loop left *)
      rf <- it_pn_frac next2 b fuel s2' m1 count1 fc1 ;;
      match rf with
      | inr (m2, fc) =>
          t <- i32_sub b (as_i32 fc) 1 ;;
          Ok (mkNumber (i32_saturating_sub e t) m2 true)
      | inl (m2, fc) => Ok (mkNumber (i32_saturating_sub e (as_i32 fc)) m2 false)
      end
  end.

(** parse.rs:58-119, with `Clone::clone` of the two iterator types as explicit functions
    [cl1], [cl2] (a derived `Clone` copies the state: [cl = fun s => s]) *)
Definition it_parse_number_cl (cl1 : St1 -> St1) (cl2 : St2 -> St2)
    (s1 : St1) (s2 : St2) (e : Z) : outcome number :=
  fast <- it_parse_number_fast (cl1 s1) (cl2 s2) e ;;   (* integer.clone(), fraction.clone() *)
  match fast with
  | Some n => Ok n
  | None => it_parse_number_rest s1 s2 e
  end.

(** clone = copy of the state value *)
Definition it_parse_number : St1 -> St2 -> Z -> outcome number :=
  it_parse_number_cl (fun s => s) (fun s => s).

(** slow.rs:293-316, the `'integer` loop.  [pm_settle] (shared with the list model) decides where
    control is at the head of the inner `while`; it does not touch the iterators.  [k] is the
    recursion fuel, the inner scans get the whole [fuel]. *)
Fixpoint it_pm_int (k : nat) (maxd : Z) (s1 : St1) (s2 : St2) (st : pm_state)
  : outcome (pm_state + (vec * Z)) :=
  match k with
  | O => Panic PkFuel
  | S k' =>
      h <- pm_settle c maxd st ;;
      match h with
      | PmDiverge => Panic PkFuel
      | PmFinish st1 =>
          st2 <- pm_flush_end c T b st1 ;;
          '(st3, hit) <- it_pm_round_up next1 c fuel s1 st2 ;;
          if hit then Ok (inr (pm_result st3, pm_count st3))
          else
            '(st4, _) <- it_pm_round_up next2 c fuel s2 st3 ;;
            Ok (inr (pm_result st4, pm_count st4))
      | PmRead st1 =>
          match next1 s1 with
          | (None, _) => Ok (inl st1)                     (* break 'integer *)
          | (Some ch, s1') => st2 <- pm_add_digit b ch st1 ;; it_pm_int k' maxd s1' s2 st2
          end
      end
  end.

(** slow.rs:330-351, the `'fraction` loop, and the final flush at slow.rs:356 *)
Fixpoint it_pm_frac (k : nat) (maxd : Z) (s2 : St2) (st : pm_state) : outcome (vec * Z) :=
  match k with
  | O => Panic PkFuel
  | S k' =>
      h <- pm_settle c maxd st ;;
      match h with
      | PmDiverge => Panic PkFuel
      | PmFinish st1 =>
          st2 <- pm_flush_end c T b st1 ;;
          '(st3, _) <- it_pm_round_up next2 c fuel s2 st2 ;;
          Ok (pm_result st3, pm_count st3)
      | PmRead st1 =>
          match next2 s2 with
          | (None, _) => st2 <- pm_flush_end c T b st1 ;; Ok (pm_result st2, pm_count st2)
          | (Some ch, s2') => st2 <- pm_add_digit b ch st1 ;; it_pm_frac k' maxd s2' st2
          end
      end
  end.

(** slow.rs:265-359 *)
Definition it_parse_mantissa (s1 : St1) (s2 : St2) (maxd : Z) : outcome (vec * Z) :=
  r <- it_pm_int fuel maxd s1 s2 (mkPm 0 0 0 (vnew L)) ;;
  match r with
  | inr res => Ok res
  | inl st =>
      '(st1, s2') <- (if pm_count st =? 0 then it_pm_skip next2 b fuel s2 st else Ok (st, s2)) ;;
      (* the `'fraction` loop: first `fraction.next()` on whatever state the skip loop left *)
      it_pm_frac fuel maxd s2' st1
  end.

(** slow.rs:36-66 *)
Definition it_slow (n : number) (fp : extfloat) (s1 : St1) (s2 : St2) : outcome extfloat :=
  debug_assert b (negb (Z.land (mant fp) (2 ^ 63) =? 0)) ;;;
  sci_exp <- scientific_exponent b n ;;
  '(bigmant, digits) <- it_parse_mantissa s1 s2 (MAX_DIGITS f) ;;
  t <- i32_add b sci_exp 1 ;;
  exponent <- i32_sub b t (as_i32 digits) ;;
  if 0 <=? exponent then positive_digit_comp c T L f b bigmant exponent
  else negative_digit_comp c T L f b bigmant fp exponent.

(** parse.rs:146-171: `parse_number(integer.clone(), fraction.clone(), exponent)` (which clones
    again for its fast pass) and later `slow(num, fp, integer, fraction)` on the originals *)
Definition it_parse_float_cl (cl1 : St1 -> St1) (cl2 : St2 -> St2)
    (s1 : St1) (s2 : St2) (e : Z) : outcome Z :=
  num <- it_parse_number_cl cl1 cl2 (cl1 s1) (cl2 s2) e ;;
  r <- try_fast_path c T f b num ;;
  match r with
  | Some v => Ok v
  | None =>
      fp <- moderate_path c T BT f b num ;;
      fp' <- (if exp fp <? 0 then
                e' <- i32_sub b (exp fp) (INVALID_FP f) ;;
                it_slow num (mkExt (mant fp) e') s1 s2
              else Ok fp) ;;
      extended_to_float f b fp'
  end.

(** clone = copy of the state value: every pass starts from the caller's states [s1], [s2] *)
Definition it_parse_float : St1 -> St2 -> Z -> outcome Z :=
  it_parse_float_cl (fun s => s) (fun s => s).

End TwoCursors.

Arguments it_parse_number_fast {St1 St2} next1 next2 b fuel s1 s2 e.
Arguments it_parse_number_rest {St1 St2} next1 next2 b fuel s1 s2 e.
Arguments it_parse_number_cl {St1 St2} next1 next2 b fuel cl1 cl2 s1 s2 e.
Arguments it_parse_number {St1 St2} next1 next2 b fuel _ _ _.
Arguments it_pm_int {St1 St2} next1 next2 c T b fuel k maxd s1 s2 st.
Arguments it_pm_frac {St2} next2 c T b fuel k maxd s2 st.
Arguments it_parse_mantissa {St1 St2} next1 next2 c T L b fuel s1 s2 maxd.
Arguments it_slow {St1 St2} next1 next2 c T L f b fuel n fp s1 s2.
Arguments it_parse_float_cl {St1 St2} next1 next2 c T BT L f b fuel cl1 cl2 s1 s2 e.
Arguments it_parse_float {St1 St2} next1 next2 c T BT L f b fuel _ _ _.

(** ** Concrete cursors *)

(** `slice::Iter<u8>`: the state is the remaining sub-slice *)
Definition slice_next (l : list Z) : option Z * list Z :=
  match l with
  | [] => (None, [])
  | x :: r => (Some x, r)
  end.
Definition slice_cursor : cursor := mkCursor (list Z) slice_next.

(** `core::iter::Chain<A, B>`: fields `a: Option<A>`, `b: Option<B>`; `next` tries `a` and sets it
    to `None` when it is exhausted, then forwards to `b` (which is *not* cleared by `next`) *)
Section Chain.
Variable Sa Sb : Type.
Variable nexta : Sa -> option Z * Sa.
Variable nextb : Sb -> option Z * Sb.
Definition chain_next (s : option Sa * Sb) : option Z * (option Sa * Sb) :=
  match s with
  | (Some a, sb) =>
      match nexta a with
      | (Some x, a') => (Some x, (Some a', sb))
      | (None, _) =>
          match nextb sb with
          | (r, sb') => (r, (None, sb'))
          end
      end
  | (None, sb) =>
      match nextb sb with
      | (r, sb') => (r, (None, sb'))
      end
  end.
End Chain.
Arguments chain_next {Sa Sb} nexta nextb s.

(** `Filter<slice::Iter<u8>, |c| c != skip>`: `next` = `find`: advance to the first byte that
    satisfies the predicate *)
Fixpoint filter_next (skip : Z) (l : list Z) : option Z * list Z :=
  match l with
  | [] => (None, [])
  | x :: r => if x =? skip then filter_next skip r else (Some x, r)
  end.

(** a legal but NON-fused iterator: a list of segments; yields the first segment, then `None`,
    then the second segment, then `None`, ... *)
Definition seg_next (s : list (list Z)) : option Z * list (list Z) :=
  match s with
  | [] => (None, [])
  | [] :: rest => (None, rest)
  | (x :: r) :: rest => (Some x, r :: rest)
  end.
