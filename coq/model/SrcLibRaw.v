(** * SrcLibRaw: the two library primitives that gen/SrcStackVec.v (the cell-level translation of
    src/stackvec.rs by tools/rs2coq, rules 28-30) needs beyond model/RawVec.v and model/SrcLib.v.
    HAND-WRITTEN AND TRUSTED; no axioms, nothing admitted. *)
From Coq Require Import ZArith List Bool.
From ML Require Import base.RustSem model.Fmt model.Vec model.Bigint model.RawVec.
Import ListNotations.
Open Scope Z_scope.

(** the range `a..b` of a `for` loop: [a; a+1; ..; b-1] (empty when b <= a) *)
Definition zrange (a b : Z) : list Z :=
  map (fun k => a + Z.of_nat k) (seq 0 (Z.to_nat (b - a))).

(** `slice::from_raw_parts(base, n)`: the first [n] cells as a slice; they must lie inside the
    buffer and be initialised *)
Definition raw_slice (cs : list (option Z)) (n : Z) : outcome (list Z) :=
  if (0 <=? n) && (n <=? zlen cs) then collect (firstn (Z.to_nat n) cs) else UB UbIndex.
