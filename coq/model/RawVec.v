(** * RawVec: cell-level model of src/stackvec.rs (the fixed-capacity `StackVec`) and of the
    functions of src/bigint.rs that reach into the vector through `unsafe`.

    State: the `[MaybeUninit<Limb>; BIGINT_LIMBS]` buffer as a list of cells ([None] = an
    uninitialised cell) and the `u16` length field.  Every Rust function becomes a function
    into [outcome]:
      - an unchecked / raw-pointer operation whose safety condition fails returns [UB]
        (write outside the buffer: [UbWrite]; read of an uninitialised cell: [UbUninit];
        read / slice outside the buffer: [UbIndex]; `set_len`/`truncate_unchecked` beyond the
        capacity: [UbSetLen]);
      - `debug_assert!` fires only when [dbg b = true];
      - arithmetic on `usize` / `u16` goes through [uop] (panics on overflow with overflow checks,
        wraps otherwise);
      - a failing safe API (`try_*`) returns the *unchanged* state and the flag [false].
    Functions that mutate `&mut self` return the new state (together with the Rust result).

    This file contains definitions only (it is extractable). The refinement towards the
    list-level model of Vec.v / Bigint.v is in proofs/RawVecFacts.v. *)
From Coq Require Import ZArith Bool List.
From ML Require Import base.RustSem model.Fmt model.Vec model.Bigint.
Import ListNotations.
Open Scope Z_scope.

Record raw := mkRaw { cells : list (option Z); rlen : Z }.

(** ** Histories *)
Inductive vop :=
| OpNew | OpFrom (s : list Z) | OpPush (x : Z) | OpPop | OpExtend (s : list Z)
| OpResize (len x : Z) | OpNormalize | OpAddSmall (y : Z) | OpMulSmall (y : Z) | OpClone
| OpSet (i x : Z) | OpGet (i : Z) | OpFromU64 (x : Z) | OpIsNormalized
| OpEq (s : list Z) | OpCmp (s : list Z).

Inductive vout :=
| OutUnit                      (* `()` *)
| OutFlag (ok : bool)          (* `Option<()>`: Some(()) = true *)
| OutLimb (o : option Z)       (* `Option<Limb>` *)
| OutBool (v : bool)
| OutCmp (c : comparison).

(** ** List helpers *)
Fixpoint upd {A} (n : nat) (l : list A) (a : A) : list A :=
  match l, n with
  | [], _ => []
  | _ :: t, O => a :: t
  | h :: t, S n' => h :: upd n' t a
  end.

Fixpoint list_eqb (x y : list Z) : bool :=      (* `==` on slices *)
  match x, y with
  | [], [] => true
  | a :: x', c :: y' => (a =? c) && list_eqb x' y'
  | _, _ => false
  end.

(** reading a run of cells as initialised limbs *)
Fixpoint collect (l : list (option Z)) : outcome (list Z) :=
  match l with
  | [] => Ok []
  | Some x :: t => r <- collect t ;; Ok (x :: r)
  | None :: _ => UB UbUninit
  end.

(** ** Raw memory accesses on the buffer *)
Definition in_buf (cs : list (option Z)) (i : Z) : bool := (0 <=? i) && (i <? zlen cs).

(** `ptr::write(base.add(i), x)` *)
Definition write_cell (cs : list (option Z)) (i x : Z) : outcome (list (option Z)) :=
  if in_buf cs i then Ok (upd (Z.to_nat i) cs (Some x)) else UB UbWrite.

(** `ptr::read(base.add(i))` *)
Definition read_cell (cs : list (option Z)) (i : Z) : outcome Z :=
  if in_buf cs i then
    match nth (Z.to_nat i) cs None with Some x => Ok x | None => UB UbUninit end
  else UB UbIndex.

(** `ptr::copy_nonoverlapping(s.as_ptr(), base.add(i), s.len())` *)
Definition write_cells (cs : list (option Z)) (i : Z) (s : list Z) : outcome (list (option Z)) :=
  if (0 <=? i) && (i + zlen s <=? zlen cs) then
    Ok (firstn (Z.to_nat i) cs ++ map Some s ++ skipn (Z.to_nat (i + zlen s)) cs)
  else UB UbWrite.

(** `ptr::copy(base.add(src), base.add(dst), n)`: an untyped (memmove) copy, uninitialised
    cells are copied as such; both ranges must lie in the buffer *)
Definition copy_within (cs : list (option Z)) (src dst n : Z) : outcome (list (option Z)) :=
  if (0 <=? src) && (0 <=? dst) && (0 <=? n) && (src + n <=? zlen cs) && (dst + n <=? zlen cs) then
    Ok (firstn (Z.to_nat dst) cs
        ++ firstn (Z.to_nat n) (skipn (Z.to_nat src) cs)
        ++ skipn (Z.to_nat (dst + n)) cs)
  else UB UbWrite.

(** `ptr::write_bytes(base, 0, n)` *)
Definition write_zeros (cs : list (option Z)) (n : Z) : outcome (list (option Z)) :=
  if (0 <=? n) && (n <=? zlen cs) then Ok (repeat (Some 0) (Z.to_nat n) ++ skipn (Z.to_nat n) cs)
  else UB UbWrite.

Section WithConfig.
Variable L : limits.
Variable b : build.

(** `capacity()` *)
Definition cap : Z := BIGINT_LIMBS L.

(** ** stackvec.rs, in source order *)

(** `StackVec::new()` *)
Definition raw_new : raw := mkRaw (repeat None (Z.to_nat cap)) 0.

(** `unsafe fn set_len(&mut self, len)`.  Safety contract: `len <= BIGINT_LIMBS`.  Setting the
    length beyond the initialised prefix is accepted here; the later read is the UB. *)
Definition set_len (r : raw) (len : Z) : outcome raw :=
  debug_assert b (len <=? 65535) ;;;
  debug_assert b (len <=? cap) ;;;
  if cap <? len then UB UbSetLen else Ok (mkRaw (cells r) (as_u16 len)).

(** `unsafe fn push_unchecked(&mut self, value)`; `self.length += 1` is `u16` arithmetic *)
Definition push_unchecked (r : raw) (x : Z) : outcome raw :=
  debug_assert b (rlen r <? cap) ;;;
  cs <- write_cell (cells r) (rlen r) x ;;
  n <- uop b 16 (rlen r + 1) ;;
  Ok (mkRaw cs n).

(** `fn try_push(&mut self, value) -> Option<()>` *)
Definition try_push (r : raw) (x : Z) : outcome (raw * bool) :=
  if rlen r <? cap then r' <- push_unchecked r x ;; Ok (r', true) else Ok (r, false).

(** `unsafe fn pop_unchecked(&mut self) -> Limb`; `self.length -= 1` is `u16` arithmetic *)
Definition pop_unchecked (r : raw) : outcome (raw * Z) :=
  debug_assert b (negb (rlen r =? 0)) ;;;
  n <- uop b 16 (rlen r - 1) ;;
  x <- read_cell (cells r) n ;;
  Ok (mkRaw (cells r) n, x).

(** `fn pop(&mut self) -> Option<Limb>` *)
Definition pop (r : raw) : outcome (raw * option Z) :=
  if rlen r =? 0 then Ok (r, None) else '(r', x) <- pop_unchecked r ;; Ok (r', Some x).

(** `unsafe fn extend_unchecked(&mut self, slc)` *)
Definition extend_unchecked (r : raw) (s : list Z) : outcome raw :=
  let index := rlen r in
  new_len <- usize_add b index (zlen s) ;;
  chk <- usize_add b (rlen r) (zlen s) ;;         (* the sum is recomputed in the debug_assert *)
  debug_assert b (chk <=? cap) ;;;
  cs <- write_cells (cells r) index s ;;
  set_len (mkRaw cs (rlen r)) new_len.

(** `fn try_extend(&mut self, slc) -> Option<()>` *)
Definition try_extend (r : raw) (s : list Z) : outcome (raw * bool) :=
  n <- usize_add b (rlen r) (zlen s) ;;
  if n <=? cap then r' <- extend_unchecked r s ;; Ok (r', true) else Ok (r, false).

(** `unsafe fn truncate_unchecked(&mut self, len)`.  Safety contract: `len <= capacity()` *)
Definition truncate_unchecked (r : raw) (len : Z) : outcome raw :=
  debug_assert b (len <=? cap) ;;;
  if cap <? len then UB UbSetLen else Ok (mkRaw (cells r) (as_u16 len)).

(** the `for index in 0..count { ptr::write(base.add(old_len + index), value) }` loop *)
Fixpoint fill (n : nat) (cs : list (option Z)) (i x : Z) : outcome (list (option Z)) :=
  match n with
  | O => Ok cs
  | S n' => cs' <- write_cell cs i x ;; fill n' cs' (i + 1) x
  end.

(** `unsafe fn resize_unchecked(&mut self, len, value)` *)
Definition resize_unchecked (r : raw) (len x : Z) : outcome raw :=
  debug_assert b (len <=? cap) ;;;
  let old_len := rlen r in
  if old_len <? len then
    count <- usize_sub b len old_len ;;
    cs <- fill (Z.to_nat count) (cells r) old_len x ;;
    Ok (mkRaw cs (as_u16 len))
  else truncate_unchecked r len.

(** `fn try_resize(&mut self, len, value) -> Option<()>` *)
Definition try_resize (r : raw) (len x : Z) : outcome (raw * bool) :=
  if cap <? len then Ok (r, false) else r' <- resize_unchecked r len x ;; Ok (r', true).

(** `fn try_from(x: &[Limb]) -> Option<Self>` *)
Definition try_from (s : list Z) : outcome (option raw) :=
  '(r, ok) <- try_extend raw_new s ;;
  Ok (if ok then Some r else None).

(** `Deref::deref` / `DerefMut::deref_mut`: `slice::from_raw_parts(ptr, self.len())`.  The slice
    must lie inside the buffer and every element of it must be initialised. *)
Definition deref (r : raw) : outcome (list Z) :=
  if (0 <=? rlen r) && (rlen r <=? zlen (cells r)) then
    collect (firstn (Z.to_nat (rlen r)) (cells r))
  else UB UbIndex.

(** `x.get(i)` on the slice view *)
Definition get (r : raw) (i : Z) : outcome (option Z) :=
  s <- deref r ;;
  if (0 <=? i) && (i <? zlen s) then Ok (Some (nth (Z.to_nat i) s 0)) else Ok None.

(** `x[i]` (read) on the slice view *)
Definition index_read (r : raw) (i : Z) : outcome Z :=
  s <- deref r ;;
  if (0 <=? i) && (i <? zlen s) then Ok (nth (Z.to_nat i) s 0) else Panic PkIndex.

(** `x[i] = v` through `DerefMut`: the bounds check precedes the write, so a panic leaves the
    vector untouched *)
Definition set (r : raw) (i x : Z) : outcome raw :=
  s <- deref r ;;
  if (0 <=? i) && (i <? zlen s) then Ok (mkRaw (upd (Z.to_nat i) (cells r) (Some x)) (rlen r))
  else Panic PkIndex.

(** `#[derive(Clone)]`: a bitwise copy of buffer and length (`MaybeUninit<u64>: Copy`) *)
Definition clone (r : raw) : raw := mkRaw (cells r) (rlen r).

(** ** the parts of bigint.rs that touch the vector *)

(** `bigint::normalize`: `while let Some(&value) = x.get(x.len().wrapping_sub(1))`; the loop
    shortens the vector at every turn, [fuel] = length + 1 is never exhausted *)
Fixpoint normalize_loop (fuel : nat) (r : raw) : outcome raw :=
  match fuel with
  | O => Panic PkFuel
  | S fuel' =>
      o <- get r (usize_wrapping_sub (rlen r) 1) ;;
      match o with
      | Some value =>
          if value =? 0 then
            n <- usize_sub b (rlen r) 1 ;;
            r' <- set_len r n ;;
            normalize_loop fuel' r'
          else Ok r
      | None => Ok r
      end
  end.
Definition normalize (r : raw) : outcome raw := normalize_loop (S (Z.to_nat (rlen r))) r.

(** `bigint::is_normalized` *)
Definition is_normalized (r : raw) : outcome bool :=
  o <- get r (usize_wrapping_sub (rlen r) 1) ;;
  Ok (match o with Some 0 => false | _ => true end).

(** `bigint::small_add_from(x, y, start)`: `while carry != 0 && index < x.len()` with indexed
    read and write, then `try_push(carry)?` *)
Fixpoint add_loop (fuel : nat) (r : raw) (index carry : Z) : outcome (raw * Z) :=
  if negb (carry =? 0) && (index <? rlen r) then
    match fuel with
    | O => Panic PkFuel
    | S fuel' =>
        x <- index_read r index ;;
        let '(s, c) := scalar_add x carry in
        r' <- set r index s ;;
        index' <- usize_add b index 1 ;;
        add_loop fuel' r' index' (if c then 1 else 0)
    end
  else Ok (r, carry).

Definition add_small_from (r : raw) (y start : Z) : outcome (raw * bool) :=
  '(r', carry) <- add_loop (S (Z.to_nat (rlen r))) r start y ;;
  if negb (carry =? 0) then try_push r' carry else Ok (r', true).

Definition add_small (r : raw) (y : Z) : outcome (raw * bool) := add_small_from r y 0.

(** `bigint::small_mul`: `for xi in x.iter_mut()` reads and writes each element of the slice in
    place, then `try_push(carry)?` *)
Fixpoint mul_loop (n : nat) (cs : list (option Z)) (i y carry : Z)
  : outcome (list (option Z) * Z) :=
  match n with
  | O => Ok (cs, carry)
  | S n' =>
      x <- read_cell cs i ;;
      let '(lo, hi) := scalar_mul x y carry in
      cs' <- write_cell cs i lo ;;
      mul_loop n' cs' (i + 1) y hi
  end.

Definition mul_small (r : raw) (y : Z) : outcome (raw * bool) :=
  s <- deref r ;;                                   (* `iter_mut()` goes through `deref_mut` *)
  '(cs, carry) <- mul_loop (length s) (cells r) 0 y 0 ;;
  let r' := mkRaw cs (rlen r) in
  if negb (carry =? 0) then try_push r' carry else Ok (r', true).

(** `bigint::from_u64` (64-bit limbs) *)
Definition raw_from_u64 (x : Z) : outcome raw :=
  let r0 := raw_new in
  debug_assert b (2 <=? cap) ;;;
  '(r1, ok) <- try_push r0 x ;;
  unwrap (if ok then Some tt else None) ;;;
  normalize r1.

(** `PartialEq::eq`: `self.len() == other.len() && self.deref() == other.deref()` *)
Definition raw_eq (r o : raw) : outcome bool :=
  if rlen r =? rlen o then
    s1 <- deref r ;; s2 <- deref o ;; Ok (list_eqb s1 s2)
  else Ok false.

(** `Ord::cmp` = `bigint::compare(self, other)` on the two slice views *)
Definition raw_cmp (r o : raw) : outcome comparison :=
  s1 <- deref r ;; s2 <- deref o ;; Ok (vcompare s1 s2).

(** `bigint::shl_limbs`: `ptr::copy` + `ptr::write_bytes` + `set_len` *)
Definition shl_limbs (r : raw) (n : Z) : outcome (raw * bool) :=
  debug_assert b (negb (n =? 0)) ;;;
  s <- usize_add b n (rlen r) ;;
  if cap <? s then Ok (r, false)
  else if negb (rlen r =? 0) then
    len <- usize_add b n (rlen r) ;;
    cs1 <- copy_within (cells r) 0 n (rlen r) ;;
    cs2 <- write_zeros cs1 n ;;
    r' <- set_len (mkRaw cs2 (rlen r)) len ;;
    Ok (r', true)
  else Ok (r, true).

(** ** One step of a history on the cell-level vector.  Operations that build a second vector
    ([OpFrom], [OpEq], [OpCmp]) do so with `try_from`; when that fails the step reports
    [OutFlag false] and keeps the current vector. *)
Definition raw_step (r : raw) (o : vop) : outcome (raw * vout) :=
  match o with
  | OpNew => Ok (raw_new, OutUnit)
  | OpFrom s =>
      v <- try_from s ;;
      Ok (match v with Some r' => (r', OutFlag true) | None => (r, OutFlag false) end)
  | OpPush x => '(r', ok) <- try_push r x ;; Ok (r', OutFlag ok)
  | OpPop => '(r', x) <- pop r ;; Ok (r', OutLimb x)
  | OpExtend s => '(r', ok) <- try_extend r s ;; Ok (r', OutFlag ok)
  | OpResize len x => '(r', ok) <- try_resize r len x ;; Ok (r', OutFlag ok)
  | OpNormalize => r' <- normalize r ;; Ok (r', OutUnit)
  | OpAddSmall y => '(r', ok) <- add_small r y ;; Ok (r', OutFlag ok)
  | OpMulSmall y => '(r', ok) <- mul_small r y ;; Ok (r', OutFlag ok)
  | OpClone => Ok (clone r, OutUnit)
  | OpSet i x => r' <- set r i x ;; Ok (r', OutUnit)
  | OpGet i => x <- get r i ;; Ok (r, OutLimb x)
  | OpFromU64 x => r' <- raw_from_u64 x ;; Ok (r', OutUnit)
  | OpIsNormalized => v <- is_normalized r ;; Ok (r, OutBool v)
  | OpEq s =>
      v <- try_from s ;;
      match v with
      | Some r2 => e <- raw_eq r r2 ;; Ok (r, OutBool e)
      | None => Ok (r, OutFlag false)
      end
  | OpCmp s =>
      v <- try_from s ;;
      match v with
      | Some r2 => e <- raw_cmp r r2 ;; Ok (r, OutCmp e)
      | None => Ok (r, OutFlag false)
      end
  end.

(** a history: the run stops at the first panic / UB, as the Rust program does *)
Fixpoint raw_run_from (r : raw) (ops : list vop) : outcome (raw * list vout) :=
  match ops with
  | [] => Ok (r, [])
  | o :: ops' =>
      '(r1, out) <- raw_step r o ;;
      '(r2, outs) <- raw_run_from r1 ops' ;;
      Ok (r2, out :: outs)
  end.
Definition raw_run (ops : list vop) : outcome (raw * list vout) := raw_run_from raw_new ops.

End WithConfig.

(** ** The same interpreter over the reference sequence: a plain list of limbs bounded by the
    capacity, through the list-level functions of Vec.v / Bigint.v for the stack back-end
    ([heap = false]).  The only panic is the index panic of [OpSet]. *)
Definition stack_cfg : config := mkConfig false false [] [].

Section Spec.
Variable L : limits.

Definition ref_vec (l : list Z) : vec := mkVec l (BIGINT_LIMBS L).

Definition spec_step (l : list Z) (o : vop) : outcome (list Z * vout) :=
  let v := ref_vec l in
  match o with
  | OpNew => Ok (vl (vnew L), OutUnit)
  | OpFrom s =>
      Ok (match Vec.try_from false L s with
          | Some v' => (vl v', OutFlag true)
          | None => (l, OutFlag false)
          end)
  | OpPush x =>
      Ok (match Vec.try_push false v x with
          | Some v' => (vl v', OutFlag true)
          | None => (l, OutFlag false)
          end)
  | OpPop => let '(x, v') := vpop v in Ok (vl v', OutLimb x)
  | OpExtend s =>
      Ok (match Vec.try_extend false v s with
          | Some v' => (vl v', OutFlag true)
          | None => (l, OutFlag false)
          end)
  | OpResize len x =>
      Ok (match Vec.try_resize false v len x with
          | Some v' => (vl v', OutFlag true)
          | None => (l, OutFlag false)
          end)
  | OpNormalize => Ok (normalize_list l, OutUnit)
  | OpAddSmall y =>
      Ok (match small_add stack_cfg v y with
          | Some v' => (vl v', OutFlag true)
          | None => (vl (small_add_failed v y), OutFlag false)
          end)
  | OpMulSmall y =>
      Ok (match small_mul stack_cfg v y with
          | Some v' => (vl v', OutFlag true)
          | None => (vl (small_mul_failed v y), OutFlag false)
          end)
  | OpClone => Ok (vl (vclone false v), OutUnit)
  | OpSet i x =>
      if (0 <=? i) && (i <? zlen l) then Ok (upd (Z.to_nat i) l x, OutUnit) else Panic PkIndex
  | OpGet i =>
      Ok (l, OutLimb (if (0 <=? i) && (i <? zlen l) then Some (nth (Z.to_nat i) l 0) else None))
  | OpFromU64 x =>
      v' <- from_u64 stack_cfg L checked_build x ;; Ok (vl v', OutUnit)
  | OpIsNormalized => Ok (l, OutBool (Bigint.is_normalized l))
  | OpEq s =>
      Ok (match Vec.try_from false L s with
          | Some v' => (l, OutBool (list_eqb l (vl v')))
          | None => (l, OutFlag false)
          end)
  | OpCmp s =>
      Ok (match Vec.try_from false L s with
          | Some v' => (l, OutCmp (vcompare l (vl v')))
          | None => (l, OutFlag false)
          end)
  end.

Fixpoint spec_run_from (l : list Z) (ops : list vop) : outcome (list Z * list vout) :=
  match ops with
  | [] => Ok (l, [])
  | o :: ops' =>
      '(l1, out) <- spec_step l o ;;
      '(l2, outs) <- spec_run_from l1 ops' ;;
      Ok (l2, out :: outs)
  end.
Definition spec_run (ops : list vop) : outcome (list Z * list vout) := spec_run_from [] ops.

End Spec.
