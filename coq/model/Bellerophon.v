(** * Bellerophon: model of src/bellerophon.rs (compact builds) *)
From Coq Require Import ZArith Bool List.
From ML Require Import base.RustSem model.Fmt model.Mask model.Num model.Number model.Rounding.
Open Scope Z_scope.

Section WithFormat.
Variable BT : btables.
Variable f : format.
Variable b : build.

Definition error_scale := 8.
Definition error_halfscale := 4.

(** `normalize(fp) -> shift` *)
Definition bnormalize (fp : extfloat) : outcome (extfloat * Z) :=
  if negb (mant fp =? 0) then
    let shift := lz64 (mant fp) in
    m <- u64_shl b (mant fp) shift ;;
    e <- i32_sub b (exp fp) shift ;;
    Ok (mkExt m e, shift)
  else Ok (fp, 0).

(** `mul(x, y)` *)
Definition bmul (x y : extfloat) : outcome extfloat :=
  debug_assert b (negb (mant x / 2 ^ 32 =? 0)) ;;;
  debug_assert b (negb (mant y / 2 ^ 32 =? 0)) ;;;
  let lomask := 4294967295 in
  let x1 := mant x / 2 ^ 32 in
  let x0 := Z.land (mant x) lomask in
  let y1 := mant y / 2 ^ 32 in
  let y0 := Z.land (mant y) lomask in
  x1_y0 <- u64_mul b x1 y0 ;;
  x0_y1 <- u64_mul b x0 y1 ;;
  x0_y0 <- u64_mul b x0 y0 ;;
  x1_y1 <- u64_mul b x1 y1 ;;
  tmp0 <- u64_add b (Z.land x1_y0 lomask) (Z.land x0_y1 lomask) ;;
  tmp1 <- u64_add b tmp0 (x0_y0 / 2 ^ 32) ;;
  tmp <- u64_add b tmp1 (2 ^ 31) ;;
  s1 <- u64_add b x1_y1 (x1_y0 / 2 ^ 32) ;;
  s2 <- u64_add b s1 (x0_y1 / 2 ^ 32) ;;
  m <- u64_add b s2 (tmp / 2 ^ 32) ;;
  e1 <- i32_add b (exp x) (exp y) ;;
  e <- i32_add b e1 64 ;;
  Ok (mkExt m e).

(** `(1 - 64) + ((log2 * k) >> log2_shift)` in i64, then `as i32` *)
Definition log2_exp (k : Z) : outcome Z :=
  p <- i64_mul b (BELL_LOG2 BT) k ;;
  s <- shr_s b 64 p (BELL_LOG2_SHIFT BT) ;;
  e <- i64_add b (-63) s ;;
  Ok (as_i32 e).

Definition get_small (index : Z) : outcome extfloat :=
  m <- index_checked (BELL_SMALL BT) index ;;
  e <- log2_exp (as_i64 index) ;;
  Ok (mkExt m e).

Definition get_large (index : Z) : outcome extfloat :=
  m <- index_checked (BELL_LARGE BT) index ;;
  t <- i64_mul b (as_i64 index) (BELL_STEP BT) ;;
  biased_e <- i64_sub b t (BELL_BIAS BT) ;;
  e <- log2_exp biased_e ;;
  Ok (mkExt m e).

Definition get_small_int (index : Z) : outcome Z := index_checked (BELL_SMALL_INT BT) index.

Definition error_is_accurate (errors : Z) (fp : extfloat) : outcome bool :=
  debug_assert b (-64 <=? exp fp) ;;;
  let mantissa_shift := 64 - MANTISSA_SIZE f - 1 in
  extrabits <- (if exp fp <=? - mantissa_shift then i32_sub b 1 (exp fp)
                else Ok (64 - MANTISSA_SIZE f - 1)) ;;
  let maskbits := as_u64 extrabits in
  if 64 <? extrabits then
    Ok (negb (snd (u64_overflowing_add (mant fp) errors)))
  else
    mask <- lower_n_mask b maskbits ;;
    let extra := Z.land (mant fp) mask in
    halfway <- lower_n_halfway b maskbits ;;
    let cmp1 := halfway <? Z.min u64_max (extra + errors) in
    let cmp2 := extra <? u64_wrapping_add halfway errors in
    Ok (negb (cmp1 && cmp2)).

Definition bfp_zero := mkExt 0 0.
Definition bfp_inf := mkExt 0 (INFINITE_POWER f).

Definition bellerophon (n : number) : outcome extfloat :=
  if (nmant n =? 0) || (nexp n <=? -4096) then Ok bfp_zero
  else if 4096 <=? nexp n then Ok bfp_inf
  else
    exponent <- i32_add b (nexp n) (BELL_BIAS BT) ;;
    (* `%` and `/` on i32 truncate toward zero; a zero step would panic *)
    (if BELL_STEP BT =? 0 then Panic PkOverflow else Ok tt) ;;;
    let small_index := Z.rem exponent (BELL_STEP BT) in
    let large_index := Z.quot exponent (BELL_STEP BT) in
    if exponent <? 0 then Ok bfp_zero
    else if zlen (BELL_LARGE BT) <=? as_usize large_index then Ok bfp_inf
    else
      (* `errors += error_scale() << (lz + 1).min(24)` when digits were dropped *)
      errors0 <- (if many n then
                    e0 <- u32_shl b error_scale (Z.min (lz64 (nmant n) + 1) 24) ;; u32_add b 0 e0
                  else Ok 0) ;;
      si <- get_small_int (as_usize small_index) ;;
      let '(mm, o) := u64_overflowing_mul (nmant n) si in
      '(fp2, errors1) <-
        (if o then
           '(fp1, _) <- bnormalize (mkExt (nmant n) 0) ;;
           sp <- get_small (as_usize small_index) ;;
           fp2 <- bmul fp1 sp ;;
           e1 <- u32_add b errors0 error_halfscale ;;
           Ok (fp2, e1)
         else
           '(fp1, _) <- bnormalize (mkExt mm 0) ;;
           Ok (fp1, errors0)) ;;
      lp <- get_large (as_usize large_index) ;;
      fp3 <- bmul fp2 lp ;;
      errors2 <- (if 0 <? errors1 then u32_add b errors1 1 else Ok errors1) ;;
      errors3 <- u32_add b errors2 error_halfscale ;;
      '(fp4, shift) <- bnormalize fp3 ;;
      errors4 <- u32_shl b errors3 shift ;;
      e5 <- i32_add b (exp fp4) (EXPONENT_BIAS f) ;;
      let fp5 := mkExt (mant fp4) e5 in
      ne <- i32_neg b e5 ;;
      ne1 <- i32_add b ne 1 ;;
      if 65 <? ne1 then Ok bfp_zero
      else
        acc <- error_is_accurate errors4 fp5 ;;
        if negb acc then
          e6 <- i32_add b e5 (INVALID_FP f) ;;
          Ok (mkExt (mant fp5) e6)
        else if ne1 =? 65 then Ok bfp_zero
        else
          round f b fp5 (fun fp s => round_nearest_tie_even b fp s cb_nearest_even).

End WithFormat.
